(* C14 tie: for every cache and every seeded fault history, the sequence of (re)loads the library reports (hook log)
   is the sequence the model predicts from what the harness did to the files (stamps), the file asked for, the value
   of CheckRuleFiles and the outcome the library reports for each load it made; and whenever a load was made with every
   file intact, the files the library has on record for it are the head file and all it includes, transitively. *)
From MC Require Import Lib.Base Model.CachesFS Gen.C14Obs.
Local Open Scope N_scope.
Fixpoint bools_eqb (a b : list bool) : bool :=
  match a, b with [], [] => true | x :: a', y :: b' => Bool.eqb x y && bools_eqb a' b' | _, _ => false end.
Definition memS (x : str) (l : list str) : bool := existsb (str_eqb x) l.
Definition same_set (ab : list str * list str) : bool :=
  forallb (fun x => memS x (snd ab)) (fst ab) && forallb (fun x => memS x (fst ab)) (snd ab).
Definition obs := (bool * list obs_call * list bool * list (list str * list str))%type.
Definition agree (o : obs) : bool :=
  let '(guard, h, flags, recorded) := o in bools_eqb (fflags guard h) flags && forallb same_set recorded.
Fixpoint bad_idx (i : N) (l : list obs) : list N :=
  match l with [] => [] | c :: r => if agree c then bad_idx (i + 1) r else i :: bad_idx (i + 1) r end.
Eval vm_compute in (bad_idx 0 fault_obs).
Lemma tie_ok : forallb agree fault_obs = true.
Proof. vm_compute. reflexivity. Qed.

(* after every successful set_rules_dir of the fault histories (also one that follows failed ones on the same
   directory): the rule files the preference manager has located are those the file-location model of C15 finds on the
   listing of the moment (the private copy minus the files deleted or moved away; the shipped tree) *)
From MC Require Import Model.FindFile Gen.RulesTree.
From Coq Require Import String.
Local Close Scope string_scope.
Definition s_ClearSpeak := S "ClearSpeak"%string.
Definition s_Nemeth := S "Nemeth"%string.
Definition located_ok (o : bool * list path * list path) : bool :=
  let '(private, missing, observed) := o in
  let files := if private then filter (fun f => negb (memP f missing)) pruned_files else rules_files in
  match t_locate files speech_base english english (speech_files s_ClearSpeak),
        t_locate files braille_base [s_Nemeth] ueb (braille_files s_Nemeth) with
  | Some ls, Some lb => all_agree files (ls ++ lb) observed
  | _, _ => false
  end.
Fixpoint bad_loc (i : N) (l : list (bool * list path * list path)) : list N :=
  match l with [] => [] | c :: r => if located_ok c then bad_loc (i + 1) r else i :: bad_loc (i + 1) r end.
Eval vm_compute in (bad_loc 0 located_obs).
Lemma located_tie_ok : forallb located_ok located_obs = true.
Proof. vm_compute. reflexivity. Qed.
