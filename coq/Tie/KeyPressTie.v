(* C08 / C11 tie: what the library says a key press stands for (hook: key_press_to_command_and_param followed by
   navigation_command_string) = the model over the translated tables, for every key code 0-255 and a few beyond with
   every modifier combination. *)
From MC Require Import Lib.Base Gen.KeyTab Model.KeyPress Gen.KeyPressObs.
Local Open Scope N_scope.
Definition agree (o : N * bool * bool * bool * bool * kobs) : bool :=
  match o with (k, sh, ct, al, me, r) =>
    match press k sh ct al me, r with
    | PErr, OErr => true
    | PPanic, OPanic => true
    | PCommand s, OCommand s' => str_eqb s s'
    | _, _ => false
    end
  end.
Fixpoint bad_idx (i : N) (l : list (N * bool * bool * bool * bool * kobs)) : list N :=
  match l with [] => [] | c :: r => if agree c then bad_idx (i + 1) r else i :: bad_idx (i + 1) r end.
Eval vm_compute in (30030003, bad_idx 0 key_press_obs).
Lemma key_press_tie_ok : forallb agree key_press_obs = true.
Proof. vm_compute. reflexivity. Qed.
