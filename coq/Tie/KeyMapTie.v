(* C11 tie for the key bindings: for every documented cell of the key table and every scenario (an expression, a
   prelude that marks a node and moves away), pressing the key (do_navigate_keypress) leaves the library in the state
   that the documented command (do_navigate_command) leaves it in and says the same: same outcome, same speech, same
   position, and the same position after a following jump to the marker the prelude set. *)
From MC Require Import Lib.Base Model.KeyMap Gen.C11KeyObs.
Local Open Scope N_scope.

Fixpoint ns_eqb (a b : list N) : bool :=
  match a, b with [], [] => true | x :: a', y :: b' => (x =? y) && ns_eqb a' b' | _, _ => false end.
Definition res_eqb (a b : N * str * N * N) : bool :=
  let '(s1, t1, p1, q1) := a in let '(s2, t2, p2, q2) := b in (s1 =? s2) && ns_eqb t1 t2 && (p1 =? p2) && (q1 =? q2).
Fixpoint lookup_cmd (sc : N) (c : str) (l : list (N * str * (N * str * N * N))) : option (N * str * N * N) :=
  match l with
  | [] => None
  | (sc', c', r) :: t => if (sc =? sc') && str_eqb c c' then Some r else lookup_cmd sc c t
  end.
(* a key observation: scenario, key, ctrl, shift, result *)
Definition key_agree (o : N * N * bool * bool * (N * str * N * N)) : bool :=
  let '(sc, k, c, s, r) := o in
  match decode documented k c s with
  | None => true                               (* a blank cell of the table: nothing is required *)
  | Some cmd => match lookup_cmd sc cmd cmd_obs with Some r' => res_eqb r r' | None => false end
  end.
Fixpoint bad_idx {A} (f : A -> bool) (i : N) (l : list A) : list N :=
  match l with [] => [] | c :: r => if f c then bad_idx f (i + 1) r else i :: bad_idx f (i + 1) r end.
Eval vm_compute in (bad_idx key_agree 0 key_obs).
Lemma key_tie_ok : forallb key_agree key_obs = true.
Proof. vm_compute. reflexivity. Qed.
