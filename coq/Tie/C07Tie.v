(* C07: the per-code clean-up (hook) applied to seeded raw strings over braille cells and the code's indicator
   letters returns braille cells only.  The check itself is evaluated by the kernel. *)
From MC Require Import Lib.Base Model.BrailleAlpha Gen.C07Obs.
Local Open Scope N_scope.
Definition obs_ok (o : N * str * str) : bool := forallb is_cell (snd o).
Fixpoint bad_idx {A} (f : A -> bool) (i : N) (l : list A) : list N :=
  match l with [] => [] | o :: t => if f o then bad_idx f (i + 1) t else i :: bad_idx f (i + 1) t end.
Eval vm_compute in (bad_idx obs_ok 0 observations).
Lemma obs_cells : forallb obs_ok observations = true.
Proof. vm_compute. reflexivity. Qed.
