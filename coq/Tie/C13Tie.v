(* Correspondence for C13: the strings get_string_ssml / get_string_sapi5 return for every command (hook
   verif::tts::tag) instantiate the generated templates; merge_pauses (hook) agrees with the token-level model
   modulo spacing and pause amounts.  Kernel-checked over Gen/C13Obs.v. *)
From MC Require Import Lib.Base Gen.TtsTabs Gen.C13Obs Model.Tts.
Fixpoint bad_idx {A} (f : A -> bool) (i : N) (l : list A) : list N :=
  match l with [] => [] | o :: t => if f o then bad_idx f (i + 1) t else i :: bad_idx f (i + 1) t end.
Eval vm_compute in (bad_idx tag_obs_ok 0 tag_observations).
Eval vm_compute in (bad_idx merge_obs_ok 0 merge_observations).
Lemma tag_obs_agree : forallb tag_obs_ok tag_observations = true.
Proof. vm_compute. reflexivity. Qed.
Lemma merge_obs_agree : forallb merge_obs_ok merge_observations = true.
Proof. vm_compute. reflexivity. Qed.
