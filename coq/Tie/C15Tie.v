(* C15 tie: the rule files the library's preference manager locates (hook prefs::verif::files) for shipped, regional,
   unknown and oddly written language / style / braille code names = the files the model locates on the listing of
   /repo/Rules; an error of set_preference = the model's None. *)
From MC Require Import Lib.Base Model.FindFile Gen.RulesTree Gen.C15Obs.
Local Open Scope N_scope.
Definition model_of (o : bool * str * str * option (list path)) : option (list located) :=
  let '(speech, name, style, _) := o in
  if speech then
    match t_locate rules_files speech_base (lang_parts name) english (speech_files style) with
    | Some [i; o; n; u; uf; d; s] => Some [i; o; n; u; uf; d; s]
    | _ => None
    end
  else t_locate rules_files braille_base (code_parts name) ueb (braille_files name).
Definition agree (o : bool * str * str * option (list path)) : bool :=
  match model_of o, snd o with
  | Some ls, Some qs => all_agree rules_files ls qs
  | None, None => true
  | _, _ => false
  end.
Fixpoint bad_idx (i : N) (l : list (bool * str * str * option (list path))) : list N :=
  match l with [] => [] | c :: r => if agree c then bad_idx (i + 1) r else i :: bad_idx (i + 1) r end.
Eval vm_compute in (bad_idx 0 locate_obs).
Lemma tie_ok : forallb agree locate_obs = true.
Proof. vm_compute. reflexivity. Qed.
