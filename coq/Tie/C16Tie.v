(* Correspondence for C16: every call of merge_number_blocks made while the library canonicalizes the C16 corpus
   (numbers of each locale grammar, split in many ways, in many contexts, plus adversarial rows) is logged with its
   context, the children before and the children after; the model must predict the children after.  Also the seven
   number patterns (hook) against the verified matcher on short strings.  Kernel-checked. *)
From MC Require Import Lib.Base Lib.Regex Model.NumberFold Gen.C16Obs.
Local Open Scope N_scope.

Definition tok_eqb (a b : tok) : bool := (tag a =? tag b) && str_eqb (text a) (text b).
Fixpoint toks_eqb (a b : list tok) : bool :=
  match a, b with [] , [] => true | x :: a', y :: b' => tok_eqb x y && toks_eqb a' b' | _, _ => false end.
Definition call_ok (o : ctx * list tok * list tok) : bool :=
  match o with (c, before, after) => toks_eqb (merge_number_blocks c before) after end.

Definition pat_ok (o : str * str * str * list bool) : bool :=
  match o with (t, b, d, r) =>
    let c := mkctx b d true None None in
    match r with
    | [r0; r1; r2; r3; r4; r5; r6] =>
        Bool.eqb (has_any d t) r0 && Bool.eqb (has_any b t) r1 && Bool.eqb (matchb (digit_only_decimal d) t) r2 &&
        Bool.eqb (matchb (number_pattern b d 3 3) t) r3 && Bool.eqb (matchb (number_pattern b d 3 5) t) r4 &&
        Bool.eqb (matchb block_4digit_hex t) r5 && Bool.eqb (matchb block_1digit t) r6
    | _ => false
    end
  end.

Fixpoint bad_idx {A} (f : A -> bool) (i : N) (l : list A) : list N :=
  match l with [] => [] | o :: t => if f o then bad_idx f (i + 1) t else i :: bad_idx f (i + 1) t end.
Eval vm_compute in (bad_idx call_ok 0 calls).
Eval vm_compute in (bad_idx pat_ok 0 pattern_obs).
Lemma calls_agree : forallb call_ok calls = true.
Proof. vm_compute. reflexivity. Qed.
Lemma patterns_agree : forallb pat_ok pattern_obs = true.
Proof. vm_compute. reflexivity. Qed.
