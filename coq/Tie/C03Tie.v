(* C03 tie: the library's canonicalize_mrows (hook: the mrow parser alone, on the trimmed input) and the model agree on
   every observed input: same tree (attributes compared as sets), or both panic, or both report an error. *)
From MC Require Import Lib.Base Lib.Tree Gen.OpDict Gen.ParserDefs Model.ParserCore Model.Parser Model.ParserSpec Proofs.ParserPlaced Gen.C03Obs.
Local Open Scope N_scope.

Definition attr_eqb (a b : str * str) : bool := str_eqb (fst a) (fst b) && str_eqb (snd a) (snd b).
Definition attrs_eqb (a b : list (str * str)) : bool :=
  (List.length a =? List.length b)%nat && forallb (fun x => existsb (attr_eqb x) b) a.
Fixpoint tree_eqb (a b : tree) : bool :=
  match a, b with
  | T g1 a1 k1 x1, T g2 a2 k2 x2 =>
      str_eqb g1 g2 && attrs_eqb a1 a2 && str_eqb x1 x2 &&
      (fix go (l1 l2 : list tree) : bool :=
         match l1, l2 with
         | [], [] => true
         | c1 :: r1, c2 :: r2 => tree_eqb c1 c2 && go r1 r2
         | _, _ => false
         end) k1 k2
  end.

Definition agree (c : tree * obs) : bool :=
  match canonicalize_mrows (fst c), snd c with
  | Ok r, OOk r' => tree_eqb r r'
  | Panic _, OPanic => true
  | Err _, OErr => true
  | _, _ => false
  end.

Fixpoint bad_idx (i : N) (l : list (tree * obs)) : list N :=
  match l with [] => [] | c :: r => if agree c then bad_idx (i + 1) r else i :: bad_idx (i + 1) r end.

Eval vm_compute in (bad_idx 0 observations).

Lemma tie_ok : forallb agree observations = true.
Proof. vm_compute. reflexivity. Qed.

(* non-vacuity of Props/C03.v rows_follow_priorities: every generated plain row (variables, numbers, dictionary
   operators in a position that fits one of their forms, fences; chosen by the harness's own classifier) is
   well placed, and its parse is well formed *)
Definition plain_ok (t : tree) : bool :=
  well_placed t && match canon (psize (lift t)) [] 0%nat (lift t) with Ok r => deep_okb r | _ => false end.
Fixpoint bad_plain (i : N) (l : list tree) : list N :=
  match l with [] => [] | c :: r => if plain_ok c then bad_plain (i + 1) r else i :: bad_plain (i + 1) r end.
Eval vm_compute in (bad_plain 0 plain_rows).
Lemma plain_rows_are_well_placed : forallb plain_ok plain_rows = true.
Proof. vm_compute. reflexivity. Qed.
