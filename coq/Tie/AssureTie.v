(* C02 tie: the library's assure_mathml (hook: the validation alone, on the trimmed input) accepts exactly the trees
   the model accepts. *)
From MC Require Import Lib.Base Gen.AssureSets Model.Assure Gen.AssureObs.
Local Open Scope N_scope.
Definition agree (o : node * bool) : bool := Bool.eqb (assure (fst o)) (snd o).
Fixpoint bad_idx (i : N) (l : list (node * bool)) : list N :=
  match l with [] => [] | c :: r => if agree c then bad_idx (i + 1) r else i :: bad_idx (i + 1) r end.
Eval vm_compute in (20020002, bad_idx 0 assure_obs).
Lemma assure_tie_ok : forallb agree assure_obs = true.
Proof. vm_compute. reflexivity. Qed.
(* both outcomes are seen *)
Lemma assure_tie_both : existsb snd assure_obs = true /\ existsb (fun o => negb (snd o)) assure_obs = true.
Proof. split; vm_compute; reflexivity. Qed.
