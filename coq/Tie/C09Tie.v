(* Correspondence for C09: add_ids (hook, on the parsed and trimmed tree) on seeded trees with none / some / all /
   duplicated author ids yields exactly the ids the model predicts, in document order.  Kernel-checked. *)
From MC Require Import Lib.Base Lib.Tree Gen.ElemSets Gen.C09Obs Model.Ids.
Local Open Scope N_scope.
Fixpoint ids_eqb (a b : list idv) : bool :=
  match a, b with [], [] => true | x :: a', y :: b' => idv_eqb x y && ids_eqb a' b' | _, _ => false end.
Definition obs_ok (o : tree * list idv) : bool := ids_eqb (ids_of (fst o)) (snd o).
Fixpoint bad_idx {A} (f : A -> bool) (i : N) (l : list A) : list N :=
  match l with [] => [] | o :: t => if f o then bad_idx f (i + 1) t else i :: bad_idx f (i + 1) t end.
Eval vm_compute in (bad_idx obs_ok 0 observations).
Lemma obs_agree : forallb obs_ok observations = true.
Proof. vm_compute. reflexivity. Qed.
