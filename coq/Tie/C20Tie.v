(* Correspondence for C20: highlight_braille_chars (hook) on seeded strings of plain / highlighted braille cells and
   passed-through characters of every UTF-8 width, for Nemeth / UEB / other codes and both fill settings, equals the
   model exactly (string, start, end, or panic).  Kernel-checked. *)
From MC Require Import Lib.Base Gen.HighlightTabs Gen.C20Obs Model.Highlight.
Local Open Scope N_scope.
Definition obs_ok (o : str * bool * bool * bool * option (str * N * N)) : bool :=
  match o with (s, n, u, fill, r) =>
    match highlight_braille_chars s n u fill, r with
    | HOk s' a z, Some (s'', a', z') => str_eqb s' s'' && (a =? a') && (z =? z')
    | HPanic, None => true
    | _, _ => false
    end
  end.
Fixpoint bad_idx {A} (f : A -> bool) (i : N) (l : list A) : list N :=
  match l with [] => [] | o :: t => if f o then bad_idx f (i + 1) t else i :: bad_idx f (i + 1) t end.
Eval vm_compute in (bad_idx obs_ok 0 observations).
Lemma obs_agree : forallb obs_ok observations = true.
Proof. vm_compute. reflexivity. Qed.
