(* C02 tie: attribute values with special characters as set_mathml serializes them = the model's escape. *)
From MC Require Import Lib.Base Gen.EscapeTab Model.PrettyPrint Gen.C02Obs.
Local Open Scope N_scope.
Definition agree (o : str * str) : bool := str_eqb (escape (fst o)) (snd o).
Fixpoint bad_idx (i : N) (l : list (str * str)) : list N :=
  match l with [] => [] | c :: r => if agree c then bad_idx (i + 1) r else i :: bad_idx (i + 1) r end.
Eval vm_compute in (bad_idx 0 escape_obs).
Lemma tie_ok : forallb agree escape_obs = true.
Proof. vm_compute. reflexivity. Qed.
