(* Correspondence for C12: random histories of set_preference (all known names, near-misses, all value kinds),
   interleaved with set_mathml / getters, run on the library; after every step the outcome and the read-back of the
   set name, and at the end both preference maps (hook verif::prefs::dump), must equal the model's. Kernel-checked. *)
From MC Require Import Lib.Base Model.Prefs Gen.PrefsTabs Gen.C12Obs.
Local Open Scope N_scope.

Definition can_load_tab (k v : str) : bool :=
  let fix go (l : list (str * str * bool)) :=
    match l with [] => true | (k', v', b) :: t => if str_eqb k k' && str_eqb v v' then b else go t end in go loadable_tab.
Definition fmt_float_tab (v : str) : option str :=
  let fix go (l : list (str * option str)) :=
    match l with [] => None | (k, r) :: t => if str_eqb v k then r else go t end in go fmt_tab.

Definition init_state : pstate := {| user := init_user; api := init_api |}.
Definition m_step := step use_decimal_point float_names can_load_tab fmt_float_tab.

Definition ocode (o : outcome) : N := match o with Ok => 0 | Err => 1 | Panic => 2 end.
Definition opt_eqb (a b : option str) : bool :=
  match a, b with Some x, Some y => str_eqb x y | None, None => true | _, _ => false end.

(* a step as observed: (is_set, name, value, outcome code, read-back of name afterwards) *)
Definition obs_step := (bool * str * str * N * option str)%type.
Fixpoint run_check (st : pstate) (l : list obs_step) : bool * pstate :=
  match l with
  | [] => (true, st)
  | (is_set, n, v, oc, rb) :: t =>
      let (st', o) := if is_set then m_step st (SetPref n v) else m_step st OtherCall in
      let ok := if is_set then (ocode o =? oc) && opt_eqb (get_preference st' n) rb else true in
      if ok then run_check st' t else (false, st')
  end.

Definition yaml_eqb (a b : yaml) : bool :=
  match a, b with
  | YS x, YS y | YR x, YR y | YI x, YI y => str_eqb x y
  | YB x, YB y => Bool.eqb x y
  | _, _ => false
  end.
Definition map_eqb (m : pmap) (d : pmap) : bool :=
  (List.length m =? List.length d)%nat && forallb (fun e => match pget (fst e) m with Some y => yaml_eqb y (snd e) | None => false end) d.

Definition history_ok (h : list obs_step * pmap * pmap) : bool :=
  match h with (steps, du, da) =>
    let (ok, st) := run_check init_state steps in
    ok && map_eqb (user st) du && map_eqb (api st) da
  end.

Fixpoint bad_idx {A} (f : A -> bool) (i : N) (l : list A) : list N :=
  match l with [] => [] | o :: t => if f o then bad_idx f (i + 1) t else i :: bad_idx f (i + 1) t end.
Eval vm_compute in (bad_idx history_ok 0 histories).
Lemma histories_agree : forallb history_ok histories = true.
Proof. vm_compute. reflexivity. Qed.
