(* C20 tie for cursor routing: for expressions x braille codes, the annotated tree the library's own search works on
   (hook: for every element the cells it occupies when highlighted alone, and the estimate that guides the guesses), and
   what get_navigation_node_from_braille_position answers for every cell position.  Model/Route.route on that tree must
   give the same id and offset (ids are numbered in document order; the <math> element is number 0). *)
From MC Require Import Lib.Base Model.Route Gen.RouteObs.
Local Open Scope N_scope.

Definition answer_eqb (a b : option (N * N)) : bool :=
  match a, b with
  | Some (i, o), Some (j, p) => (i =? j) && (o =? p)
  | None, None => true
  | _, _ => false
  end.
(* one observation: the tree, the number of cells, and per position the library's answer (None: an error or a panic) *)
Definition route_agree (o : rtree * N * list (N * option (N * N))) : bool :=
  let '(t, blen, answers) := o in
  forallb (fun pa => answer_eqb (route 200 blen 0 t (fst pa)) (snd pa)) answers.

Fixpoint bad_idx {A} (f : A -> bool) (i : N) (l : list A) : list N :=
  match l with [] => [] | c :: r => if f c then bad_idx f (i + 1) r else i :: bad_idx f (i + 1) r end.
Eval vm_compute in (bad_idx route_agree 0 route_obs).
Lemma route_tie_ok : forallb route_agree route_obs = true.
Proof. vm_compute. reflexivity. Qed.
