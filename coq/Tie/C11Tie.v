(* Correspondence for C11: seeded navigation histories (commands, new expressions, set_navigation_node) run on the
   library with the rule-outcome log hook; the model, fed the logged rule outcomes, must predict the status of every
   command and the position stack, command stack and place markers after it.  Kernel-checked. *)
From MC Require Import Lib.Base Model.Nav Gen.C11Obs.
Local Open Scope N_scope.

Definition mk (p : str * N) : pos := mkpos (fst p) (snd p).
Fixpoint nth_out (l : list rule_out) (k : nat) : rule_out :=
  match l, k with
  | r :: _, O => r
  | _ :: t, Datatypes.S k' => nth_out t k'
  | [], _ => mkout true None 0 [] false false false false
  end.

Definition poss_eqb (a : list pos) (b : list (str * N)) : bool :=
  (List.length a =? List.length b)%nat && forallb (fun x => pos_eqb (fst x) (mk (snd x))) (combine a b).
Fixpoint strs_eqb (a b : list str) : bool :=
  match a, b with [], [] => true | x :: a', y :: b' => str_eqb x y && strs_eqb a' b' | _, _ => false end.
Definition scode (s : status) : N := match s with Done => 0 | Error => 1 | Panic => 2 | Retry => 3 end.

(* the library reports stacks bottom first; the model keeps the top at the head *)
Definition state_matches (st : nstate) (ops : list (str * N)) (ocs : list str) (om : list (str * N)) : bool :=
  poss_eqb (rev (ps st)) ops && strs_eqb (rev (cs st)) ocs && poss_eqb (marks st) om.

Fixpoint run_session (ids : list str) (root : str) (st : nstate) (l : list nav_op) : bool :=
  match l with
  | [] => true
  | NewExpr ids' root' :: t => run_session ids' root' (new_expression st) t
  | SetNode id o leaf_ok code ops ocs om :: t =>
      let (st', s) := set_node ids id o leaf_ok st in
      (scode s =? code) && state_matches st' ops ocs om && run_session ids root st' t
  | Cmd c outs code ops ocs om :: t =>
      let (st', s) := nav_command ids root c (nth_out outs) st in
      (scode s =? code) && state_matches st' ops ocs om && run_session ids root st' t
  end.

Definition session_ok (s : list nav_op) : bool := run_session [] [] init_state s.
Fixpoint bad_idx {A} (f : A -> bool) (i : N) (l : list A) : list N :=
  match l with [] => [] | o :: t => if f o then bad_idx f (i + 1) t else i :: bad_idx f (i + 1) t end.
Eval vm_compute in (bad_idx session_ok 0 sessions).
Lemma sessions_agree : forallb session_ok sessions = true.
Proof. vm_compute. reflexivity. Qed.
