(* Correspondence for C17 (entity step): set_mathml("<math><mtext>" ++ T ++ "</mtext></math>") observed on the
   library for every T of Gen/C17Obs.v (all entity names, adversarial strings, seeded random strings) agrees with
   the model's prep_obs.  Checked by the kernel. *)
From MC Require Import Lib.Base Gen.C17Obs Model.Prep.
Definition agree (o : str * (N * str)) : bool :=
  let r := prep_obs (fst o) in (fst r =? fst (snd o))%N && str_eqb (snd r) (snd (snd o)).
Fixpoint disagreements (i : N) (l : list (str * (N * str))) : list N :=
  match l with [] => [] | o :: t => if agree o then disagreements (i + 1) t else i :: disagreements (i + 1) t end.
Eval vm_compute in (disagreements 0 observations).
Lemma obs_agree : forallb agree observations = true.
Proof. vm_compute. reflexivity. Qed.
