(* Correspondence for C19: (1) the token sequences of the real lexer (hook) on grammar-based, mutated and arbitrary
   Unicode strings equal the model's; (2) under IntentErrorRecovery=Error, speech for an expression whose top row carries
   the intent value fails exactly when the model's parser rejects the value (arguments a and b present).  Kernel-checked. *)
From MC Require Import Lib.Base Lib.Tree Gen.C19Obs Model.Intent Model.FindArg.
From Coq Require Import String.
Local Close Scope string_scope.
Local Open Scope N_scope.

Definition tok_code (t : token) : N * str :=
  match t with TTerm c => (0, [c]) | TProp s => (1, s) | TArg s => (2, s) | TName s => (3, s) | TNum s => (4, s) end.
Fixpoint toks_eqb (a : list token) (b : list (N * str)) : bool :=
  match a, b with
  | [], [] => true
  | x :: a', (k, s) :: b' => (fst (tok_code x) =? k) && str_eqb (snd (tok_code x)) s && toks_eqb a' b'
  | _, _ => false
  end.
Definition lex_ok (o : str * option (list (N * str))) : bool :=
  match lex (fst o), snd o with
  | Some l, Some l' => toks_eqb l l'
  | None, None => true
  | _, _ => false
  end.

Definition leaf (g : string) (x : string) : tree := T (S g) [] [] (S x).
Definition fa (n : str) : option (option tree) :=
  if str_eqb n (S "a"%string) then Some (Some (leaf "mi" "x")) else if str_eqb n (S "b"%string) then Some (Some (leaf "mn" "1")) else Some None.
Definition ms (p : str) : option tree := Some (T (S "mrow"%string) [] [] []).
Definition accept_ok (o : str * bool) : bool :=
  Bool.eqb (match parse fa ms (S "mrow"%string) (fst o) with Some _ => true | None => false end) (snd o).

(* (3) find_arg: under Error mode the intent f($x) on a generated tree (arg in {none, x, y} on any element, rows with or
   without an intent of their own) is accepted exactly when the model resolves $x, and when exactly one number is spoken it
   is the label of the element the model finds *)
Fixpoint subtree (l : N) (t : atree) {struct t} : option atree :=
  match t with
  | AT _ _ kids l' =>
      if l' =? l then Some t else
      (fix go (ks : list atree) : option atree :=
         match ks with [] => None | k :: ks' => match subtree l k with Some r => Some r | None => go ks' end end) kids
  end.
Fixpoint labels (t : atree) {struct t} : list N :=
  match t with
  | AT _ _ kids l => l :: (fix go (ks : list atree) : list N := match ks with [] => [] | k :: ks' => labels k ++ go ks' end) kids
  end.
(* the number spoken (when exactly one is) is a label inside the element the model finds *)
Definition arg_ok (o : atree * bool * option N) : bool :=
  let '(t, acc, lab) := o in
  match resolve 1 t with
  | Some r => acc && match lab with
                     | Some l => match subtree r t with Some st => memN l (labels st) | None => false end
                     | None => true
                     end
  | None => negb acc
  end.

Fixpoint bad_idx {A} (f : A -> bool) (i : N) (l : list A) : list N :=
  match l with [] => [] | o :: t => if f o then bad_idx f (i + 1) t else i :: bad_idx f (i + 1) t end.
Eval vm_compute in (bad_idx lex_ok 0 lex_obs).
Eval vm_compute in (bad_idx accept_ok 0 accept_obs).
Eval vm_compute in (bad_idx arg_ok 0 arg_obs).
Lemma arg_agree : forallb arg_ok arg_obs = true.
Proof. vm_compute. reflexivity. Qed.
Lemma lex_agree : forallb lex_ok lex_obs = true.
Proof. vm_compute. reflexivity. Qed.
Lemma accept_agree : forallb accept_ok accept_obs = true.
Proof. vm_compute. reflexivity. Qed.
