(* Correspondence (tie) for C18: the library's observed outputs of the canonicalize_plane1 hook on the WHOLE
   finite domain (every mapped variant + unknown + absent  x  every table/UCD character + outside characters),
   regenerated into Gen/C18Obs.v on every run, agree with the model.  Checked by the kernel. *)
From MC Require Import Lib.Base Gen.C18Obs Model.MathVariant.
Definition obs_agree_b : bool :=
  forallb (fun o => match o with (v, text, out) => str_eqb (plane1 v text) out end) observations.
Definition first_disagreement := find (fun o => match o with (v, text, out) => negb (str_eqb (plane1 v text) out) end) observations.
Lemma obs_agree : obs_agree_b = true.
Proof. vm_compute. reflexivity. Qed.
