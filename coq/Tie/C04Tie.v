(* C04 tie: the library's own calls of replace_array_string (hook: the non-empty replacement strings before and after
   the loop that removes repetitive optional text) agree with the model on every logged call. *)
From MC Require Import Lib.Base Model.SpeechAsm Gen.C04Obs.
Local Open Scope N_scope.

Fixpoint strs_eqb (a b : list str) : bool :=
  match a, b with [], [] => true | x :: a', y :: b' => str_eqb x y && strs_eqb a' b' | _, _ => false end.
Definition agree (o : list str * list str) : bool := strs_eqb (fix_optional (fst o)) (snd o).
Fixpoint bad_idx (i : N) (l : list (list str * list str)) : list N :=
  match l with [] => [] | c :: r => if agree c then bad_idx (i + 1) r else i :: bad_idx (i + 1) r end.
Eval vm_compute in (bad_idx 0 array_obs).
Lemma tie_ok : forallb agree array_obs = true.
Proof. vm_compute. reflexivity. Qed.
