(* Rule engine tie (C04): the real engine's own trace (hook speech::verif::ev: rules tried and matched, replacement
   items dispatched, test entries visited and their outcomes, insert sizes, Unicode replacements) against the models.

   eval_obs  : every distinct (replacement AST as the translator reads it from the YAML text, outcomes of the conditions
               and inserts in the order the engine evaluated them, the events the engine logged while evaluating it).
               Model/RuleAst.tr_items on the AST and the outcomes must give exactly the logged events (the hook cannot
               tell an empty literal from a non-empty one nor spell from pause: norm_ev) and use up exactly the outcomes.
   match_obs : every distinct (rule set, tag, ids of the rules tried in order, whether one matched).  The tried rules
               must be the first candidates of the table Model/RuleTable.build makes of the rules in load order; when
               none matched, all candidates were tried. *)
From MC Require Import Lib.Base Model.RuleAst Model.RuleTable Gen.RuleEvalObs.
Local Open Scope N_scope.

Fixpoint ns_eqb (a b : list N) : bool :=
  match a, b with [], [] => true | x :: a', y :: b' => (x =? y) && ns_eqb a' b' | _, _ => false end.

Definition eval_agree (o : items * list N * list N) : bool :=
  let '(a, os, ev) := o in
  let (e, rest) := tr_items a os in
  ns_eqb (map norm_ev e) ev && match rest with [] => true | _ => false end.

Definition tables : list table := map build rule_sets.
Definition match_agree (o : N * str * list N * bool) : bool :=
  let '(k, tag, ids, hit) := o in
  let cs := candidates (nth (N.to_nat k) tables []) tag in
  ns_eqb (map r_id (firstn (List.length ids) cs)) ids &&
  (hit || Nat.eqb (List.length ids) (List.length cs)).

Fixpoint bad_idx {A} (f : A -> bool) (i : N) (l : list A) : list N :=
  match l with [] => [] | c :: r => if f c then bad_idx f (i + 1) r else i :: bad_idx f (i + 1) r end.
Eval vm_compute in (bad_idx eval_agree 0 eval_obs).
Eval vm_compute in (bad_idx match_agree 0 match_obs).

Lemma eval_tie_ok : forallb eval_agree eval_obs = true.
Proof. vm_compute. reflexivity. Qed.
Lemma match_tie_ok : forallb match_agree match_obs = true.
Proof. vm_compute. reflexivity. Qed.
