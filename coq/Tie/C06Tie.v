(* C06 tie: on real rule output (hook: the braille string before clean-up) and on seeded raw strings the library's
   clean-up leaves the projection unchanged, as the theorems say it must for any regex engine. *)
From MC Require Import Lib.Base Model.BrailleClean Gen.BrailleSteps Proofs.BrailleStepsP Gen.C06Obs.
Local Open Scope N_scope.

Definition agree (keep : N -> bool) (o : str * str) : bool := str_eqb (proj keep (snd o)) (proj keep (fst o)).
Fixpoint bad_idx (keep : N -> bool) (i : N) (l : list (str * str)) : list N :=
  match l with [] => [] | c :: r => if agree keep c then bad_idx keep (i + 1) r else i :: bad_idx keep (i + 1) r end.

Eval vm_compute in (bad_idx (keep_digits nemeth_digits) 0 nemeth_obs, bad_idx keep_text 0 latex_obs, bad_idx keep_text 0 asciimath_obs).

Lemma tie_ok : forallb (agree (keep_digits nemeth_digits)) nemeth_obs && forallb (agree keep_text) latex_obs &&
               forallb (agree keep_text) asciimath_obs = true.
Proof. vm_compute. reflexivity. Qed.
