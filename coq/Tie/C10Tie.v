(* C10 tie: for every cache and every seeded history, the sequence of reloads the library reports (hook log) is the
   sequence the slot model predicts from the keys it was asked for. *)
From MC Require Import Lib.Base Model.Caches Gen.C10Obs.
Local Open Scope N_scope.
Fixpoint bools_eqb (a b : list bool) : bool :=
  match a, b with [], [] => true | x :: a', y :: b' => Bool.eqb x y && bools_eqb a' b' | _, _ => false end.
Definition agree (o : bool * bool * list str * list bool) : bool :=
  let '(guard, silent, keys, obs) := o in bools_eqb (flags guard silent keys) obs.
Fixpoint bad_idx (i : N) (l : list (bool * bool * list str * list bool)) : list N :=
  match l with [] => [] | c :: r => if agree c then bad_idx (i + 1) r else i :: bad_idx (i + 1) r end.
Eval vm_compute in (bad_idx 0 cache_obs).
Lemma tie_ok : forallb agree cache_obs = true.
Proof. vm_compute. reflexivity. Qed.
