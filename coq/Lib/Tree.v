(* MathML trees: an element with a tag, attributes, element children and (for leaves) text. *)
From MC Require Import Lib.Base.
From Coq Require Import String.
Local Close Scope string_scope.

Inductive tree := T (tag : str) (attrs : list (str * str)) (kids : list tree) (text : str).

Definition tag_of (t : tree) : str := match t with T g _ _ _ => g end.
Definition attrs_of (t : tree) : list (str * str) := match t with T _ a _ _ => a end.
Definition kids_of (t : tree) : list tree := match t with T _ _ k _ => k end.
Definition text_of (t : tree) : str := match t with T _ _ _ x => x end.

Fixpoint attr_get (k : str) (a : list (str * str)) : option str :=
  match a with [] => None | (k', v) :: t => if str_eqb k k' then Some v else attr_get k t end.

Section TreeInd.
  Variable P : tree -> Prop.
  Hypothesis H : forall g a k x, Forall P k -> P (T g a k x).
  Fixpoint tree_ind' (t : tree) : P t :=
    match t with
    | T g a k x => H g a k x ((fix go (l : list tree) : Forall P l :=
                                 match l with [] => Forall_nil P | c :: r => Forall_cons c (tree_ind' c) (go r) end) k)
    end.
End TreeInd.

Fixpoint size (t : tree) : nat :=
  match t with T _ _ k _ => Datatypes.S (fold_right (fun c a => size c + a)%nat 0%nat k) end.
