(* Shared vocabulary: code points, strings, association lists.  Stdlib only. *)
From Coq Require Export List NArith ZArith Bool Lia.
Export ListNotations.
Local Open Scope N_scope.

Definition cp := N.
Definition str := list N.

Definition valid_scalar (c : N) : bool := (c <? 0xD800) || ((0xE000 <=? c) && (c <=? 0x10FFFF)).

Fixpoint str_eqb (a b : str) : bool :=
  match a, b with
  | [], [] => true
  | x :: a', y :: b' => (x =? y) && str_eqb a' b'
  | _, _ => false
  end.

Lemma str_eqb_eq : forall a b, str_eqb a b = true <-> a = b.
Proof.
  induction a as [|x a IH]; destruct b as [|y b]; cbn [str_eqb]; split; intro H;
    try reflexivity; try discriminate.
  - apply andb_true_iff in H. destruct H as [H1 H2]. apply N.eqb_eq in H1. apply IH in H2. subst. reflexivity.
  - inversion H; subst. apply andb_true_iff. split; [apply N.eqb_refl | apply IH; reflexivity].
Qed.

Lemma str_eqb_refl : forall a, str_eqb a a = true.
Proof. intro a. apply str_eqb_eq. reflexivity. Qed.

Fixpoint lookupN {A} (k : N) (l : list (N * A)) : option A :=
  match l with
  | [] => None
  | (k', v) :: l' => if k =? k' then Some v else lookupN k l'
  end.

Fixpoint lookupS {A} (k : str) (l : list (str * A)) : option A :=
  match l with
  | [] => None
  | (k', v) :: l' => if str_eqb k k' then Some v else lookupS k l'
  end.

Definition memN (k : N) (l : list N) : bool := existsb (N.eqb k) l.

Lemma memN_In : forall k l, memN k l = true <-> In k l.
Proof.
  intros k l. unfold memN. rewrite existsb_exists. split.
  - intros [x [Hx He]]. apply N.eqb_eq in He. subst. exact Hx.
  - intro H. exists k. split; [exact H | apply N.eqb_refl].
Qed.

Definition in_ranges (c : N) (rs : list (N * N)) : bool :=
  existsb (fun r => (fst r <=? c) && (c <=? snd r)) rs.

Fixpoint nodupN (l : list N) : bool :=
  match l with
  | [] => true
  | x :: l' => negb (memN x l') && nodupN l'
  end.

Lemma nodupN_NoDup : forall l, nodupN l = true -> NoDup l.
Proof.
  induction l as [|x l IH]; cbn [nodupN]; intro H; [constructor|].
  apply andb_true_iff in H. destruct H as [H1 H2]. constructor.
  - intro Hin. apply memN_In in Hin. rewrite Hin in H1. discriminate.
  - apply IH. exact H2.
Qed.

Lemma NoDup_map_inj : forall (f : N -> N) l, NoDup (map f l) ->
  forall a b, In a l -> In b l -> f a = f b -> a = b.
Proof.
  induction l as [|x l IH]; cbn [map]; intros Hnd a b Ha Hb Hf; [destruct Ha|].
  inversion Hnd as [|y ys Hnin Hnd']; subst.
  destruct Ha as [Ha|Ha], Hb as [Hb|Hb]; subst.
  - reflexivity.
  - exfalso. apply Hnin. rewrite Hf. apply in_map. exact Hb.
  - exfalso. apply Hnin. rewrite <- Hf. apply in_map. exact Ha.
  - apply IH; assumption.
Qed.

(* ASCII string literals as code-point lists *)
From Coq Require Import String Ascii.
Definition S (x : string) : str := map N_of_ascii (list_ascii_of_string x).

Lemma lookupS_In : forall {A} (k : str) (l : list (str * A)) v, lookupS k l = Some v -> In (k, v) l.
Proof.
  induction l as [|[k' v'] l IH]; cbn [lookupS]; intros v H; [discriminate|].
  destruct (str_eqb k k') eqn:E.
  - apply str_eqb_eq in E. inversion H; subst. left. reflexivity.
  - right. apply IH. exact H.
Qed.

Lemma lookupS_None : forall {A} (k : str) (l : list (str * A)), lookupS k l = None -> ~ In k (map fst l).
Proof.
  induction l as [|[k' v'] l IH]; cbn [lookupS map fst]; intros H; [intros []|].
  destruct (str_eqb k k') eqn:E; [discriminate|].
  intros [H1|H1].
  - subst. rewrite str_eqb_refl in E. discriminate.
  - exact (IH H H1).
Qed.

Lemma lookupS_notin : forall {A} (k : str) (l : list (str * A)), ~ In k (map fst l) -> lookupS k l = None.
Proof.
  induction l as [|[k' v'] l IH]; cbn [lookupS map fst]; intros H; [reflexivity|].
  destruct (str_eqb k k') eqn:E.
  - apply str_eqb_eq in E. subst. exfalso. apply H. left. reflexivity.
  - apply IH. intro Hin. apply H. right. exact Hin.
Qed.

Lemma lookupN_In : forall {A} (k : N) (l : list (N * A)) v, lookupN k l = Some v -> In (k, v) l.
Proof.
  induction l as [|[k' v'] l IH]; cbn [lookupN]; intros v H; [discriminate|].
  destruct (k =? k')%N eqn:E.
  - apply N.eqb_eq in E. inversion H; subst. left. reflexivity.
  - right. apply IH. exact H.
Qed.

Lemma lookupN_Some_fst : forall {A} (k : N) (l : list (N * A)) v, lookupN k l = Some v -> In k (map fst l).
Proof.
  intros A k l v H. apply lookupN_In in H. change k with (fst (k, v)). apply in_map. exact H.
Qed.

Lemma forallb_In : forall {A} (f : A -> bool) l x, forallb f l = true -> In x l -> f x = true.
Proof. intros A f l x H Hin. rewrite forallb_forall in H. apply H. exact Hin. Qed.


Lemma NoDup_app_disjoint : forall {A} (l1 l2 : list A), NoDup l1 -> NoDup l2 ->
  (forall x, In x l1 -> In x l2 -> False) -> NoDup (l1 ++ l2).
Proof.
  induction l1 as [|a l1 IH]; intros l2 H1 H2 Hd; [exact H2|]. inversion H1; subst. cbn [app]. constructor.
  - intro Hin. apply in_app_or in Hin. destruct Hin as [Hin|Hin]; [contradiction|]. exact (Hd a (or_introl eq_refl) Hin).
  - apply IH; [assumption | assumption|]. intros x Hx1 Hx2. exact (Hd x (or_intror Hx1) Hx2).
Qed.

Lemma Forall_firstn' : forall {A} (P : A -> Prop) n l, Forall P l -> Forall P (firstn n l).
Proof.
  intros A P n. induction n as [|n IH]; intros l H; [constructor|]. destruct l as [|a l]; [constructor|].
  inversion H; subst. cbn [firstn]. constructor; [assumption | apply IH; assumption].
Qed.
Lemma Forall_skipn' : forall {A} (P : A -> Prop) n l, Forall P l -> Forall P (skipn n l).
Proof.
  intros A P n. induction n as [|n IH]; intros l H; [exact H|]. destruct l as [|a l]; [constructor|].
  inversion H; subst. cbn [skipn]. apply IH. assumption.
Qed.
