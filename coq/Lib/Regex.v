(* Regular expressions over code points with a verified Brzozowski-derivative matcher.  Stdlib only. *)
From MC Require Import Lib.Base.
Local Open Scope N_scope.

Inductive re :=
| Void                                  (* matches nothing *)
| Eps                                   (* the empty string *)
| Cls (ranges : list (N * N)) (neg : bool)   (* one character in (resp. not in) the ranges *)
| Seq (a b : re)
| Alt (a b : re)
| Star (a : re).

Definition cls_match (ranges : list (N * N)) (neg : bool) (c : N) : bool := xorb neg (in_ranges c ranges).

Inductive Matches : re -> str -> Prop :=
| MEps : Matches Eps []
| MCls : forall rs neg c, cls_match rs neg c = true -> Matches (Cls rs neg) [c]
| MSeq : forall a b s1 s2, Matches a s1 -> Matches b s2 -> Matches (Seq a b) (s1 ++ s2)
| MAltL : forall a b s, Matches a s -> Matches (Alt a b) s
| MAltR : forall a b s, Matches b s -> Matches (Alt a b) s
| MStar0 : forall a, Matches (Star a) []
| MStarS : forall a s1 s2, Matches a s1 -> Matches (Star a) s2 -> Matches (Star a) (s1 ++ s2).

Fixpoint nullable (r : re) : bool :=
  match r with
  | Void => false
  | Eps => true
  | Cls _ _ => false
  | Seq a b => nullable a && nullable b
  | Alt a b => nullable a || nullable b
  | Star _ => true
  end.

Fixpoint deriv (c : N) (r : re) : re :=
  match r with
  | Void => Void
  | Eps => Void
  | Cls rs neg => if cls_match rs neg c then Eps else Void
  | Seq a b => if nullable a then Alt (Seq (deriv c a) b) (deriv c b) else Seq (deriv c a) b
  | Alt a b => Alt (deriv c a) (deriv c b)
  | Star a => Seq (deriv c a) (Star a)
  end.

(* light simplification keeps derivatives small; it preserves the language (simp_correct) *)
Fixpoint simp (r : re) : re :=
  match r with
  | Seq a b => match simp a, simp b with
               | Void, _ => Void
               | _, Void => Void
               | Eps, b' => b'
               | a', Eps => a'
               | a', b' => Seq a' b'
               end
  | Alt a b => match simp a, simp b with
               | Void, b' => b'
               | a', Void => a'
               | a', b' => Alt a' b'
               end
  | Star a => match simp a with Void => Eps | Eps => Eps | a' => Star a' end
  | _ => r
  end.

Fixpoint matchb (r : re) (s : str) : bool :=
  match s with
  | [] => nullable r
  | c :: t => matchb (simp (deriv c r)) t
  end.

(* ---------------------------------------------------------------- correctness *)
Lemma nullable_correct : forall r, nullable r = true <-> Matches r [].
Proof.
  induction r as [| |rs neg|a IHa b IHb|a IHa b IHb|a IHa]; cbn [nullable]; split; intro H; try discriminate.
  - inversion H.
  - constructor.
  - reflexivity.
  - inversion H.
  - apply andb_true_iff in H. destruct H as [H1 H2]. apply IHa in H1. apply IHb in H2.
    change (@nil N) with (@nil N ++ @nil N). constructor; assumption.
  - inversion H as [| |a' b' s1 s2 H1 H2| | | |]; subst.
    match goal with E : _ ++ _ = [] |- _ => apply app_eq_nil in E; destruct E; subst end.
    apply andb_true_iff. split; [apply IHa | apply IHb]; assumption.
  - apply orb_true_iff in H. destruct H as [H|H]; [apply MAltL; apply IHa | apply MAltR; apply IHb]; exact H.
  - apply orb_true_iff. inversion H; subst; [left; apply IHa | right; apply IHb]; assumption.
  - constructor.
  - reflexivity.
Qed.

Lemma star_cons_inv : forall a c s, Matches (Star a) (c :: s) ->
  exists s1 s2, s = s1 ++ s2 /\ Matches a (c :: s1) /\ Matches (Star a) s2.
Proof.
  intros a c s H. remember (Star a) as r eqn:Er. remember (c :: s) as cs eqn:Ec. revert c s Ec.
  induction H as [| | | | | |a' t1 t2 H1 IH1 H2 IH2]; intros c0 s0 Ec; try discriminate.
  inversion Er; subst a'. destruct t1 as [|c1 t1].
  - cbn [app] in Ec. apply (IH2 eq_refl c0 s0 Ec).
  - cbn [app] in Ec. inversion Ec; subst. exists t1, t2. split; [reflexivity|]. split; assumption.
Qed.

Lemma deriv_correct : forall r c s, Matches (deriv c r) s <-> Matches r (c :: s).
Proof.
  induction r as [| |rs neg|a IHa b IHb|a IHa b IHb|a IHa]; intros c s; cbn [deriv]; split; intro H.
  - inversion H.
  - inversion H.
  - inversion H.
  - inversion H.
  - destruct (cls_match rs neg c) eqn:E; inversion H; subst. constructor. exact E.
  - inversion H; subst. match goal with E : cls_match _ _ _ = true |- _ => rewrite E end. constructor.
  - destruct (nullable a) eqn:En.
    + inversion H as [| | |a' b' s' Hl|a' b' s' Hr| |]; subst.
      * inversion Hl as [| |a'' b'' s1 s2 H1 H2| | | |]; subst. apply IHa in H1.
        change (c :: s1 ++ s2) with ((c :: s1) ++ s2). constructor; assumption.
      * apply IHb in Hr. change (c :: s) with ([] ++ c :: s). constructor; [apply nullable_correct; exact En | exact Hr].
    + inversion H as [| |a'' b'' s1 s2 H1 H2| | | |]; subst. apply IHa in H1.
      change (c :: s1 ++ s2) with ((c :: s1) ++ s2). constructor; assumption.
  - inversion H as [| |a' b' s1 s2 H1 H2| | | |]; subst.
    match goal with E : _ ++ _ = _ :: _ |- _ => rename E into Eapp end.
    destruct s1 as [|c1 s1].
    + cbn [app] in Eapp. subst s2. apply nullable_correct in H1. rewrite H1. apply MAltR. apply IHb. exact H2.
    + cbn [app] in Eapp. inversion Eapp; subst. apply IHa in H1. destruct (nullable a); [apply MAltL|]; constructor; assumption.
  - inversion H; subst; [apply MAltL; apply IHa | apply MAltR; apply IHb]; assumption.
  - inversion H; subst; [apply MAltL; apply IHa | apply MAltR; apply IHb]; assumption.
  - inversion H as [| |a' b' s1 s2 H1 H2| | | |]; subst. apply IHa in H1.
    change (c :: s1 ++ s2) with ((c :: s1) ++ s2). constructor; assumption.
  - apply star_cons_inv in H. destruct H as [s1 [s2 [E [H1 H2]]]]. subst. constructor; [apply IHa; exact H1 | exact H2].
Qed.

Lemma matches_void : forall s, ~ Matches Void s.
Proof. intros s H. inversion H. Qed.
Lemma matches_eps : forall s, Matches Eps s -> s = [].
Proof. intros s H. inversion H. reflexivity. Qed.

Lemma star_void_eps : forall a s, (forall t, ~ Matches a t) \/ (forall t, Matches a t -> t = []) -> Matches (Star a) s -> s = [].
Proof.
  intros a s Ha H. remember (Star a) as r eqn:Er. induction H as [| | | | | |a' s1 s2 H1 _ H2 IH2]; try discriminate; [reflexivity|].
  inversion Er; subst a'. rewrite (IH2 eq_refl), app_nil_r. destruct Ha as [Ha|Ha]; [exfalso; exact (Ha _ H1) | exact (Ha _ H1)].
Qed.

Lemma simp_correct : forall r s, Matches (simp r) s <-> Matches r s.
Proof.
  induction r as [| |rs neg|a IHa b IHb|a IHa b IHb|a IHa]; intro s; cbn [simp]; try tauto.
  - (* Seq *)
    assert (Hgen : Matches (Seq (simp a) (simp b)) s <-> Matches (Seq a b) s).
    { split; intro H; inversion H; subst; constructor; try (apply IHa; assumption); try (apply IHb; assumption). }
    rewrite <- Hgen. clear Hgen IHa IHb.
    destruct (simp a) eqn:Ea; destruct (simp b) eqn:Eb;
      (split; intro H;
       [ try (exfalso; exact (matches_void _ H));
         try (change s with ([] ++ s); constructor; [constructor | exact H]; fail);
         try (rewrite <- (app_nil_r s); constructor; [exact H | constructor]; fail);
         try exact H
       | inversion H as [| |a' b' s1 s2 H1 H2| | | |]; subst;
         try (exfalso; exact (matches_void _ H1)); try (exfalso; exact (matches_void _ H2));
         try (apply matches_eps in H1; subst; cbn [app]; exact H2);
         try (apply matches_eps in H2; subst; rewrite app_nil_r; exact H1);
         try (constructor; assumption) ]).
  - (* Alt *)
    assert (Hgen : Matches (Alt (simp a) (simp b)) s <-> Matches (Alt a b) s).
    { split; intro H; inversion H; subst; [apply MAltL; apply IHa | apply MAltR; apply IHb | apply MAltL; apply IHa | apply MAltR; apply IHb]; assumption. }
    rewrite <- Hgen. clear Hgen IHa IHb.
    destruct (simp a) eqn:Ea; destruct (simp b) eqn:Eb;
      (split; intro H;
       [ try (exfalso; exact (matches_void _ H)); try (apply MAltR; exact H; fail); try (apply MAltL; exact H; fail); try exact H
       | inversion H; subst; try (exfalso; eapply matches_void; eassumption); try assumption; try (apply MAltL; assumption); try (apply MAltR; assumption) ]).
  - (* Star *)
    assert (Hgen : Matches (Star (simp a)) s <-> Matches (Star a) s).
    { split; intro H.
      - remember (Star (simp a)) as r eqn:Er. induction H as [| | | | | |a' s1 s2 H1 _ H2 IH2]; try discriminate; [constructor|].
        inversion Er; subst a'. constructor; [apply IHa; exact H1 | apply IH2; reflexivity].
      - remember (Star a) as r eqn:Er. induction H as [| | | | | |a' s1 s2 H1 _ H2 IH2]; try discriminate; [constructor|].
        inversion Er; subst a'. constructor; [apply IHa; exact H1 | apply IH2; reflexivity]. }
    rewrite <- Hgen. clear Hgen IHa.
    destruct (simp a) eqn:Ea; try tauto.
    + split; intro H; [apply matches_eps in H; subst; constructor|].
      rewrite (star_void_eps Void s (or_introl matches_void) H). constructor.
    + split; intro H; [apply matches_eps in H; subst; constructor|].
      rewrite (star_void_eps Eps s (or_intror matches_eps) H). constructor.
Qed.

Theorem matchb_correct : forall s r, matchb r s = true <-> Matches r s.
Proof.
  induction s as [|c t IH]; intro r; cbn [matchb].
  - apply nullable_correct.
  - rewrite IH, simp_correct. apply deriv_correct.
Qed.

(* ---------------------------------------------------------------- derived forms used by the translators *)
Definition Opt (r : re) : re := Alt Eps r.
Definition Plus (r : re) : re := Seq r (Star r).
Fixpoint Rep (n : nat) (r : re) : re := match n with O => Eps | Datatypes.S k => Seq r (Rep k r) end.
(* r{lo,hi} with lo <= hi *)
Fixpoint UpTo (n : nat) (r : re) : re := match n with O => Eps | Datatypes.S k => Opt (Seq r (UpTo k r)) end.
Definition RepRange (lo hi : nat) (r : re) : re := Seq (Rep lo r) (UpTo (hi - lo) r).
Definition Lit (s : str) : re := fold_right (fun c acc => Seq (Cls [(c, c)] false) acc) Eps s.
Definition OneOf (s : str) : re := Cls (map (fun c => (c, c)) s) false.
Definition Digit : re := Cls [(48, 57)] false.

(* unanchored search: does some substring match?  (Regex::is_match) *)
Definition Any : re := Cls [] true.
Definition contains (r : re) (s : str) : bool := matchb (Seq (Star Any) (Seq r (Star Any))) s.
