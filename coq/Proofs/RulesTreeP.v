(* C15 obligations over the listing of /repo/Rules (Gen/RulesTree.v, regenerated on every run) and their lift to EVERY
   language / code name through the theorems of FindFileP. *)
From MC Require Import Lib.Base Model.FindFile Proofs.FindFileP Gen.RulesTree.
From Coq Require Import String.
Local Open Scope N_scope.

Definition T_file := t_is_file rules_files.
Definition T_dir := t_is_dir rules_files.
Definition T_style := fun d => t_in_dir rules_files d rules_suffix.
Definition T_yaml := fun d => t_in_dir rules_files d (S ".yaml").
Definition two_styles : list str := [S "ClearSpeak"; S "SimpleSpeak"].

(* no zip archives: the unzip step is a directory check *)
Lemma no_zip : forallb (fun f => negb (ends_with (last f []) (S ".zip"))) rules_files = true.
Proof. vm_compute. reflexivity. Qed.

(* the default language serves every speech file, the default code every braille file *)
Definition served (base : path) (d : str) (file : str) : bool :=
  T_dir (base ++ [d]) && existsb (servesb T_file file) (ancestors (base ++ [d])).
Lemma default_language_serves :
  forallb (fun st => forallb (served speech_base (S "en")) (speech_files st)) two_styles = true.
Proof. vm_compute. reflexivity. Qed.
Lemma default_code_serves :
  forallb (fun c => forallb (served braille_base (S "UEB")) [S "unicode.yaml"; S "unicode-full.yaml"; S "definitions.yaml"])
          [tt] = true.
Proof. vm_compute. reflexivity. Qed.
Lemma default_dirs_hold_rules : T_yaml (speech_base ++ english) && T_yaml (braille_base ++ ueb) && T_style (braille_base ++ ueb) = true.
Proof. vm_compute. reflexivity. Qed.

(* EVERY language name, whatever it is, gets each of the seven speech files located *)
Theorem L_every_name_is_located : forall parts st file, In st two_styles -> In file (speech_files st) ->
  t_find rules_files speech_base parts english file <> None.
Proof.
  intros parts st file Hst Hf. pose proof default_language_serves as D.
  pose proof (forallb_In _ _ _ D Hst) as D1. cbv beta in D1. pose proof (forallb_In _ _ _ D1 Hf) as D2.
  unfold served in D2. apply andb_true_iff in D2. destruct D2 as [Hd Hs].
  unfold t_find, english. apply L_default_serves_total; assumption.
Qed.

(* EVERY braille code name gets its unicode and definition files located, and some rule file *)
Lemma scan_style_some : forall (is_file has_style : path -> bool) ds file alt,
  existsb has_style ds = true -> scan is_file has_style ds file true alt <> None.
Proof.
  induction ds as [|a ds IH]; intros file alt H; [discriminate|]. cbn [scan existsb] in *.
  destruct (is_file (a ++ [file]) && negb (str_eqb file f_definitions && negb (nonempty a))); [discriminate|].
  destruct alt as [d|].
  - clear H IH. revert d. induction ds as [|b ds IH2]; intro d; cbn [scan]; [discriminate|].
    destruct (is_file (b ++ [file]) && negb (str_eqb file f_definitions && negb (nonempty b))); [discriminate | apply IH2].
  - cbn [andb]. destruct (has_style a) eqn:Ha.
    + clear H IH. generalize a. induction ds as [|b ds IH2]; intro d; cbn [scan]; [discriminate|].
      destruct (is_file (b ++ [file]) && negb (str_eqb file f_definitions && negb (nonempty b))); [discriminate | apply IH2].
    + cbn [orb] in H. apply IH. exact H.
Qed.

(* every shipped language (and region), with each of its own styles, is served from its own directory: no file comes
   from English; zh-tw has one style only, the other name gives that one *)
Definition under (prefix : path) (l : located) : bool :=
  match l with Found p => is_prefix prefix p | AnyStyleIn d => is_prefix prefix d end.
Definition own_files (lang : path) (st : str) : bool :=
  match t_locate rules_files speech_base lang english (speech_files st) with
  | Some (intent :: rest) => forallb (under (speech_base ++ firstn 1 lang)) rest
  | _ => false
  end.
Lemma shipped_languages_use_their_own_files :
  forallb (fun ls => forallb (own_files (fst ls)) (snd ls)) shipped_styles = true.
Proof. vm_compute. reflexivity. Qed.
Lemma shipped_languages_accept_both_style_names :
  forallb (fun lang => forallb (own_files lang) two_styles) shipped_languages = true.
Proof. vm_compute. reflexivity. Qed.

(* a regional variant takes the region's file where there is one and the language's otherwise (instances of
   L_region_first / L_language_next on the shipped tree) *)
Definition region_rule (lang : path) (file : str) : bool :=
  match lang with
  | [l; r] =>
      match t_find rules_files speech_base lang english file with
      | Some (Found p) => if T_file (speech_base ++ [l; r] ++ [file]) then path_eqb p (speech_base ++ [l; r] ++ [file])
                          else if T_file (speech_base ++ [l] ++ [file]) then path_eqb p (speech_base ++ [l] ++ [file]) else true
      | Some (AnyStyleIn _) => negb (T_file (speech_base ++ [l; r] ++ [file])) && negb (T_file (speech_base ++ [l] ++ [file]))
      | None => false
      end
  | _ => true
  end.
Lemma regions_fall_back_to_their_language :
  forallb (fun lang => forallb (region_rule lang) (tl (speech_files (S "ClearSpeak")))) shipped_languages = true.
Proof. vm_compute. reflexivity. Qed.

(* every shipped braille code that can be named is served from its own directory *)
Definition own_code (code : str) : bool :=
  match t_locate rules_files braille_base (code_parts code) ueb (braille_files code) with
  | Some ls => forallb (under (braille_base ++ [code])) ls
  | None => false
  end.
Definition hyphenated (code : path) : bool := match code with [c] => existsb (N.eqb 45) c | _ => false end.
Lemma shipped_codes_use_their_own_files :
  forallb (fun c => match c with [code] => own_code code || hyphenated c | _ => false end) shipped_codes = true.
Proof. vm_compute. reflexivity. Qed.
(* ... the code whose directory name has a '-' is located in the directory of the part before the '-' (known finding) *)
Lemma hyphenated_code_is_not_selectable :
  forallb (fun c => match c with [code] => negb (hyphenated c) || negb (own_code code) | _ => true end) shipped_codes = true.
Proof. vm_compute. reflexivity. Qed.

(* the directories directly under Languages/: each can be selected by its name, except those that hold no rule file
   (known finding: zh has only the region tw) *)
Definition selectable (l : str) : bool :=
  match t_locate rules_files speech_base [l] english (speech_files (S "ClearSpeak")) with Some _ => true | None => false end.
Lemma language_directories_selectable :
  forallb (fun l => selectable l || negb (T_yaml (speech_base ++ [l]))) language_directories = true.
Proof. vm_compute. reflexivity. Qed.
Lemma empty_language_directory_fails :
  forallb (fun l => T_yaml (speech_base ++ [l]) || negb (selectable l)) language_directories = true.
Proof. vm_compute. reflexivity. Qed.

(* a name with no directory at all is unzipped, located and served exactly as English *)
Theorem L_unknown_language_is_english : forall parts st, In st two_styles ->
  lang_dir T_dir speech_base parts = None ->
  t_locate rules_files speech_base parts english (speech_files st) =
  t_locate rules_files speech_base english english (speech_files st) /\
  t_locate rules_files speech_base parts english (speech_files st) <> None.
Proof.
  intros parts st Hst Hn.
  assert (U : t_unzip_ok rules_files speech_base parts english = true).
  { unfold t_unzip_ok, english. apply L_unknown_unzips_as_default; [exact Hn | vm_compute; reflexivity | vm_compute; reflexivity]. }
  assert (E : forall file, t_find rules_files speech_base parts english file = t_find rules_files speech_base english english file).
  { intro file. unfold t_find, english. apply L_unknown_is_default. exact Hn. }
  assert (M : map (find_file T_file T_dir T_style speech_base parts (Some english)) (speech_files st) =
              map (find_file T_file T_dir T_style speech_base english (Some english)) (speech_files st)).
  { apply map_ext. intro file. exact (E file). }
  split.
  - unfold t_locate, locate_all. fold T_file T_dir T_style T_yaml. unfold t_unzip_ok in U. fold T_dir T_yaml in U. rewrite U, M.
    replace (unzip_ok T_dir T_yaml speech_base english (Some english)) with true by (vm_compute; reflexivity). reflexivity.
  - unfold t_locate, locate_all. fold T_file T_dir T_style T_yaml. unfold t_unzip_ok in U. fold T_dir T_yaml in U. rewrite U.
    apply all_some_total. intros x Hx. apply in_map_iff in Hx. destruct Hx as [file [Hx Hf]]. subst x.
    exact (L_every_name_is_located parts st file Hst Hf).
Qed.
