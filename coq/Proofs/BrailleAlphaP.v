(* C07: finite obligations over the generated tables and rule texts, per braille code. *)
From MC Require Import Lib.Base Model.BrailleAlpha Gen.BrailleTabs.
Local Open Scope N_scope.

Definition in_strs (s : str) (l : list str) : bool := existsb (str_eqb s) l.

(* table: every entry the class can reach maps to braille cells (or is supplied by a preference) *)
Definition table_ok (table : list (str * str)) (cls : list (N * N)) (prefs : list (N * str)) : bool :=
  forallb (fun e => match fst e with
                    | [c] => negb (in_ranges c cls) || (match lookupN c prefs with Some _ => true | None => false end) || forallb is_cell (snd e)
                    | _ => true
                    end) table
  && forallb (fun p => forallb is_cell (snd p)) prefs.

(* rule / Unicode-file texts and clean-up literals: every character becomes cells, known texts aside *)
Definition texts_ok (table : list (str * str)) (cls : list (N * N)) (prefs : list (N * str)) (exempt texts : list str) : bool :=
  forallb (fun t => in_strs t exempt || text_ok table cls prefs t) texts.
(* no text carries a dots-7-8 cell, known texts aside *)
Definition texts_plain (exempt texts : list str) : bool :=
  forallb (fun t => in_strs t exempt || forallb (fun c => negb (has_dots78 c)) t) texts.

Definition code_ok (table : list (str * str)) (cls : list (N * N)) (prefs : list (N * str)) (exempt texts lits : list str) : bool :=
  table_ok table cls prefs && texts_ok table cls prefs exempt texts && texts_ok table cls prefs exempt lits && texts_plain exempt texts.

Lemma nemeth_ok : code_ok nemeth_table nemeth_class nemeth_prefs nemeth_exempt nemeth_texts nemeth_literals = true.
Proof. vm_compute. reflexivity. Qed.
Lemma ueb_ok : code_ok ueb_table ueb_class ueb_prefs ueb_exempt ueb_texts ueb_literals = true.
Proof. vm_compute. reflexivity. Qed.
Lemma vietnam_ok : code_ok vietnam_table vietnam_class vietnam_prefs vietnam_exempt vietnam_texts vietnam_literals = true.
Proof. vm_compute. reflexivity. Qed.
Lemma cmu_ok : code_ok cmu_table cmu_class cmu_prefs cmu_exempt cmu_texts cmu_literals = true.
Proof. vm_compute. reflexivity. Qed.
Lemma swedish_ok : code_ok swedish_table swedish_class swedish_prefs swedish_exempt swedish_texts swedish_literals = true.
Proof. vm_compute. reflexivity. Qed.

(* reading of code_ok for a single text *)
Lemma code_ok_text : forall table cls prefs exempt texts lits t,
  code_ok table cls prefs exempt texts lits = true -> In t texts -> in_strs t exempt = false ->
  text_ok table cls prefs t = true /\ forallb (fun c => negb (has_dots78 c)) t = true.
Proof.
  intros table cls prefs exempt texts lits t H Hin Hex. unfold code_ok in H.
  repeat (apply andb_true_iff in H; destruct H as [H ?]).
  match goal with Ht : texts_ok _ _ _ _ texts = true |- _ => pose proof (forallb_In _ _ t Ht Hin) as A end.
  match goal with Hp : texts_plain _ texts = true |- _ => pose proof (forallb_In _ _ t Hp Hin) as Bq end.
  cbn beta in A, Bq. rewrite Hex in A, Bq. cbn [orb] in A, Bq. split; assumption.
Qed.
