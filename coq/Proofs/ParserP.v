(* C03 proofs, part 2: the shift/reduce machine keeps every row it builds well formed with respect to the operator
   priorities (Model/ParserSpec.v), for every sequence of well-placed decisions. *)
From MC Require Import Lib.Base Lib.Tree Gen.OpDict Model.ParserCore Model.Parser Model.ParserSpec Proofs.ParserNary.
From Coq Require Import String.
Local Close Scope string_scope.
Local Open Scope N_scope.

Arguments mk_row : simpl never.

(* ---------------------------------------------------------------- small facts *)
Lemma bind_ok : forall {A B} (m : res A) (k : A -> res B) b, bind m k = Ok b -> exists a, m = Ok a /\ k a = Ok b.
Proof. intros A B m k b H. destruct m; cbn in H; try discriminate. eauto. Qed.

Lemma kind_of_set_ann : forall a t, kind_of (set_ann a t) = kind_of t.
Proof. intros a [a0 g at_ k x]. reflexivity. Qed.
Lemma closedb_set_ann : forall r a t, closedb r (set_ann a t) = closedb r t.
Proof. intros. unfold closedb. rewrite kind_of_set_ann. reflexivity. Qed.
Lemma openb_set_ann : forall r c a t, openb r c (set_ann a t) = openb r c t.
Proof. intros. unfold openb. rewrite kind_of_set_ann. reflexivity. Qed.
Lemma solidb_set_ann : forall a t, solidb (set_ann a t) = solidb t.
Proof. intros. unfold solidb. rewrite kind_of_set_ann. reflexivity. Qed.
Lemma deep_set_ann : forall a t, deep_okb (set_ann a t) = deep_okb t.
Proof. intros a [a0 g at_ k x]. reflexivity. Qed.
Lemma pann_set_ann : forall a t, pann (set_ann a t) = a.
Proof. intros a [a0 g at_ k x]. reflexivity. Qed.

Lemma solid_closed : forall r e, solidb e = true -> closedb r e = true.
Proof. intros r e. unfold solidb, closedb. destruct (kind_of e); try discriminate; reflexivity. Qed.
Lemma solid_open : forall r c e, solidb e = true -> openb r c e = true.
Proof. intros r c e. unfold solidb, openb. destruct (kind_of e); try discriminate; reflexivity. Qed.

Definition deep_list (l : list ptree) : bool := forallb deep_okb l.

Lemma deep_okb_unfold : forall t, deep_okb t = (if is_built t then row_okb t else true) && deep_list (pkids t).
Proof.
  intros [a g at_ k x]. reflexivity.
Qed.

Lemma is_added_mk_row : forall k, is_added (mk_row k) = true.
Proof. intro k. vm_compute. reflexivity. Qed.

Lemma forallb_rev : forall {A} (f : A -> bool) l, forallb f (rev l) = forallb f l.
Proof.
  intros A f l. induction l as [|x l IH]; [reflexivity|]. cbn [rev forallb]. rewrite forallb_app, IH. cbn [forallb].
  rewrite andb_true_r. apply andb_comm.
Qed.

Lemma deep_mk_row : forall k, rowr_okb k = true -> deep_list k = true -> deep_okb (mk_row k) = true.
Proof.
  intros k H1 H2. rewrite deep_okb_unfold. unfold row_okb, mk_row. cbn [pkids].
  rewrite rev_involutive, H1. unfold deep_list. rewrite forallb_rev. unfold deep_list in H2. rewrite H2.
  destruct (is_built _); reflexivity.
Qed.

(* ---------------------------------------------------------------- the invariant *)
Definition head_ann (k : list ptree) (c : opinfo) : Prop := exists o k', k = o :: k' /\ pann o = Some c.

Definition base_inv (pend : ptree -> bool) (f : frame) : Prop :=
  f_op f = op_fencepost /\
  ((f_kids f = [] /\ f_operand f = false) \/
   (exists e, f_kids f = [e] /\ pann e = None /\ f_operand f = true /\ pend e = true)).

Definition pre_inv (pend : ptree -> bool) (f : frame) : Prop :=
  is_prefix (f_op f) = true /\ ((is_left_fence (f_op f) = true /\ 0 < o_prio (f_op f)) \/ 20 < o_prio (f_op f)) /\
  ((exists p, f_kids f = [p] /\ pann p = Some (f_op f) /\ f_operand f = false) \/
   (exists p e, f_kids f = [e; p] /\ pann p = Some (f_op f) /\ pann e = None /\ f_operand f = true /\
                pend e = true /\ openb (o_prio (f_op f)) (f_op f) e = true)).

Definition in_inv (pend : ptree -> bool) (f : frame) : Prop :=
  o_ty (f_op f) = 2 /\ 20 < o_prio (f_op f) /\
  ((inrowb (o_prio (f_op f)) (f_op f) (f_kids f) = true /\ head_ann (f_kids f) (f_op f) /\ f_operand f = false) \/
   (exists e k, f_kids f = e :: k /\ inrowb (o_prio (f_op f)) (f_op f) k = true /\ head_ann k (f_op f) /\
                pann e = None /\ f_operand f = true /\ pend e = true /\
                openb (o_prio (f_op f)) (f_op f) e = true)).

Definition mono (above below : frame) : Prop :=
  o_prio (f_op below) < o_prio (f_op above) \/
  (o_prio (f_op below) = o_prio (f_op above) /\ is_nary (f_op above) (f_op below) = false).

Fixpoint sinv (pend : ptree -> bool) (st : stack) : Prop :=
  match st with
  | [] => False
  | f :: rest =>
      match rest with
      | [] => base_inv pend f
      | g :: _ => (pre_inv pend f \/ (in_inv pend f /\ mono f g)) /\ f_operand g = false /\ sinv (fun _ => true) rest
      end
  end.

Lemma sinv_cons : forall pend f g rest,
  sinv pend (f :: g :: rest) <-> (pre_inv pend f \/ (in_inv pend f /\ mono f g)) /\ f_operand g = false /\ sinv (fun _ => true) (g :: rest).
Proof. intros. reflexivity. Qed.
Lemma sinv_one : forall pend f, sinv pend [f] <-> base_inv pend f.
Proof. intros. reflexivity. Qed.

Definition fdeep (f : frame) : Prop := deep_list (f_kids f) = true.

Lemma base_inv_weaken : forall (p q : ptree -> bool) f, (forall e, p e = true -> q e = true) -> base_inv p f -> base_inv q f.
Proof.
  intros p q f H [H0 [H1|[e [A [B [C D]]]]]]; split; auto. right. exists e. auto.
Qed.
Lemma pre_inv_weaken : forall (p q : ptree -> bool) f, (forall e, p e = true -> q e = true) -> pre_inv p f -> pre_inv q f.
Proof.
  intros p q f H [H0 [H1 [H2|[x [e [A [B [C [D [E F]]]]]]]]]]; split; auto; split; auto.
  right. exists x, e. repeat split; auto.
Qed.
Lemma in_inv_weaken : forall (p q : ptree -> bool) f, (forall e, p e = true -> q e = true) -> in_inv p f -> in_inv q f.
Proof.
  intros p q f H [H0 [H1 [H2|[e [k [A [B [C [D [E [F G]]]]]]]]]]]; split; auto; split; auto.
  right. exists e, k. repeat split; auto.
Qed.
Lemma sinv_weaken : forall (p q : ptree -> bool) st, (forall e, p e = true -> q e = true) -> sinv p st -> sinv q st.
Proof.
  intros p q st H. destruct st as [|f [|g rest]]; cbn [sinv]; [auto | apply base_inv_weaken; auto |].
  intros [[A|[A B]] C]; split; auto.
  - left. eapply pre_inv_weaken; eauto.
  - right. split; auto. eapply in_inv_weaken; eauto.
Qed.

(* a waiting frame satisfies its invariant for every [pend] *)
Lemma sinv_waiting : forall p q st top rest, st = top :: rest -> f_operand top = false -> sinv p st -> sinv q st.
Proof.
  intros p q st top rest -> Hw. destruct rest as [|g rest]; cbn [sinv].
  - intros [H0 [H1|[e [A [B [C D]]]]]]; [split; auto | congruence].
  - intros [[A|[A B]] C]; split; auto.
    + left. destruct A as [H0 [H1 [H2|[x [e [A [B [C' [D [E F]]]]]]]]]]; [split; auto | congruence].
    + right. split; auto. destruct A as [H0 [H1 [H2|[e [k [A [B' [C' [D [E [F G]]]]]]]]]]]; [split; auto | congruence].
Qed.

(* ---------------------------------------------------------------- adding an operand *)
Lemma ptr_eq_illegal : ptr_eq op_illegal op_illegal = true.
Proof. reflexivity. Qed.

Lemma add_operand_eq : forall f e, f_operand f = false ->
  add_child f e (fst illegal_pair) op_illegal = Ok (Fr (set_ann None e :: f_kids f) (f_ch f) (f_op f) true).
Proof. intros f e H. unfold add_child. rewrite ptr_eq_illegal, H. reflexivity. Qed.

Lemma add_operator_eq : forall f c ch op, ptr_eq op op_illegal = false ->
  add_child f c ch op = Ok (Fr (set_ann (Some op) c :: f_kids f) ch op false).
Proof. intros f c ch op H. unfold add_child. rewrite H. reflexivity. Qed.

Lemma sinv_add_operand : forall pend top rest e,
  sinv pend (top :: rest) -> f_operand top = false -> pann e = None ->
  pend e = true -> openb (o_prio (f_op top)) (f_op top) e = true ->
  sinv pend (Fr (e :: f_kids top) (f_ch top) (f_op top) true :: rest).
Proof.
  intros pend top rest e Hs Hw Ha Hp Ho. destruct rest as [|g rest]; cbn [sinv] in *.
  - destruct Hs as [H0 [[H1 H2]|[x [A [B [C D]]]]]]; [|congruence].
    split; [exact H0|]. right. exists e. cbn [f_kids f_operand]. rewrite H1. auto.
  - destruct Hs as [[A|[A B]] C]; split; auto.
    + left. destruct A as [H0 [H1 [[p [K [P W]]]|[x [y [K [B [C' [D [E F]]]]]]]]]]; [|congruence].
      split; [exact H0|]. split; [exact H1|]. right. exists p, e. cbn [f_kids f_operand f_op]. rewrite K. auto 10.
    + right. split; [|exact B]. destruct A as [H0 [H1 [[I [Hd W]]|[x [k [K [B' [C' [D [E [F G]]]]]]]]]]]; [|congruence].
      split; [exact H0|]. split; [exact H1|]. right. exists e, (f_kids top). cbn [f_kids f_operand f_op]. auto 10.
Qed.

(* ---------------------------------------------------------------- rows built from complete frames *)
Lemma inrowb_inv : forall r c k, inrowb r c k = true ->
  exists o oi e k', k = o :: e :: k' /\ pann o = Some oi /\ is_nary oi c = true /\ o_prio oi = r /\
                    pann e = None /\ closedb r e = true /\ (k' = [] \/ inrowb r c k' = true).
Proof.
  intros r c k H. destruct k as [|o [|e k']]; cbn [inrowb] in H; try discriminate.
  destruct (pann o) as [oi|] eqn:Eo; [|discriminate].
  repeat rewrite andb_true_iff in H. destruct H as [[[[H1 H2] H3] H4] H5].
  exists o, oi, e, k'. repeat split; auto.
  - apply N.eqb_eq. exact H2.
  - unfold ann_none in H3. destruct (pann e); [discriminate | reflexivity].
  - destruct k'; [left; reflexivity | right; exact H5].
Qed.

Lemma last_default : forall {A} (l : list A) a b, l <> [] -> last l a = last l b.
Proof.
  intros A l. induction l as [|x l IH]; intros a b H; [congruence|]. destruct l as [|y l]; [reflexivity|].
  change (last (x :: y :: l) a) with (last (y :: l) a). change (last (x :: y :: l) b) with (last (y :: l) b).
  apply IH. discriminate.
Qed.
Lemma last_shift : forall {A} (l : list A) (x d : A), last (x :: l) d = last l x.
Proof.
  intros A l x d. destruct l as [|y l]; [reflexivity|]. change (last (x :: y :: l) d) with (last (y :: l) d).
  apply last_default. discriminate.
Qed.

Lemma inrowb_last_none : forall r c k o rest, k = o :: rest -> inrowb r c k = true -> pann (last rest o) = None.
Proof.
  intros r c k. remember (List.length k) as n eqn:Hn. revert k Hn.
  induction n as [n IH] using (well_founded_induction lt_wf). intros k Hn o rest -> H.
  apply inrowb_inv in H. destruct H as [o' [oi [e [k' [E [A [B [C [D [F G]]]]]]]]]].
  inversion E; subst o' rest. destruct G as [->|G].
  - cbn [last]. exact D.
  - destruct k' as [|o2 rest2]; [cbn in G; discriminate|].
    change (last (e :: o2 :: rest2) o) with (last (o2 :: rest2) o).
    rewrite last_shift. eapply (IH (List.length (o2 :: rest2))); [| reflexivity | reflexivity | exact G].
    subst n. cbn [List.length]. lia.
Qed.

Lemma rowr_ok_pre : forall e p c, pann p = Some c -> pann e = None -> is_prefix c = true ->
  openb (o_prio c) c e = true -> rowr_okb [e; p] = true.
Proof. intros e p c Hp He Hc Ho. unfold rowr_okb. rewrite Hp, He, Hc, Ho. reflexivity. Qed.

Lemma rowr_ok_in : forall e k c, inrowb (o_prio c) c k = true -> head_ann k c -> pann e = None ->
  openb (o_prio c) c e = true -> rowr_okb (e :: k) = true.
Proof.
  intros e k c Hi [o [k' [-> Ho]]] He Hop.
  pose proof (inrowb_last_none _ _ _ o k' eq_refl Hi) as HL.
  destruct (inrowb_inv _ _ _ Hi) as [o' [oi [e1 [k'' [E _]]]]]. inversion E; subst o' k'.
  unfold rowr_okb. rewrite HL. unfold ann_none. rewrite He, Ho, Hop, Hi. reflexivity.
Qed.

Lemma kind_mk_row_pre : forall e p c, pann p = Some c -> pann e = None ->
  kind_of (mk_row [e; p]) = if is_left_fence c then KSolid else KPrefix (o_prio c).
Proof.
  intros e p c Hp He. unfold kind_of. rewrite is_added_mk_row. unfold mk_row. cbn [pkids negb].
  rewrite rev_involutive. rewrite Hp, He. reflexivity.
Qed.

Lemma kind_mk_row_in : forall e k c, inrowb (o_prio c) c k = true -> head_ann k c -> pann e = None ->
  kind_of (mk_row (e :: k)) = KInfix (o_prio c) c.
Proof.
  intros e k c Hi [o [k' [-> Ho]]] He.
  pose proof (inrowb_last_none _ _ _ o k' eq_refl Hi) as HL.
  destruct (inrowb_inv _ _ _ Hi) as [o' [oi [e1 [k'' [E _]]]]]. inversion E; subst o' k'.
  unfold kind_of. rewrite is_added_mk_row. unfold mk_row. cbn [pkids negb]. rewrite rev_involutive.
  rewrite HL, He, Ho. reflexivity.
Qed.

(* ---------------------------------------------------------------- reduce_stack_one_time *)
Definition with_operand (f : frame) (m : ptree) : frame := Fr (m :: f_kids f) (f_ch f) (f_op f) true.

Lemma reduce_one_inv : forall cur top below rest,
  sinv (closedb cur) (top :: below :: rest) -> f_operand top = true -> cur < o_prio (f_op top) ->
  Forall fdeep (top :: below :: rest) ->
  exists m, reduce_one (top :: below :: rest) = Ok (o_prio (f_op below), with_operand below m :: rest) /\
            sinv (closedb cur) (with_operand below m :: rest) /\ Forall fdeep (with_operand below m :: rest).
Proof.
  intros cur top below rest Hs Hf Hc Hd. apply sinv_cons in Hs. destruct Hs as [Hk [Hw Hr]].
  inversion Hd as [|? ? Dt Hd']; subst. inversion Hd' as [|? ? Db Dr]; subst.
  assert (Hr' : sinv (closedb cur) (below :: rest)) by (eapply sinv_waiting; eauto).
  destruct Hk as [Hp|[Hi Hm]].
  - destruct Hp as [P1 [P2 [[p [K [A W]]]|[p [e [K [A [B [C [D E]]]]]]]]]]; [congruence|].
    exists (mk_row [e; p]). unfold reduce_one. rewrite K. cbv beta iota.
    rewrite (add_operand_eq below (mk_row [e; p]) Hw). cbn [bind f_op]. split; [reflexivity|].
    assert (KM := kind_mk_row_pre e p (f_op top) A B).
    split.
    + apply sinv_add_operand; auto.
      * unfold closedb. rewrite KM. destruct (is_left_fence (f_op top)); [reflexivity|]. apply N.ltb_lt. exact Hc.
      * unfold openb. rewrite KM. destruct (is_left_fence (f_op top)); reflexivity.
    + constructor; [|exact Dr]. unfold fdeep, with_operand. cbn [f_kids deep_list forallb].
      unfold fdeep in Db. unfold deep_list in Db. rewrite Db, andb_true_r. apply deep_mk_row.
      * exact (rowr_ok_pre e p (f_op top) A B P1 E).
      * unfold fdeep in Dt. rewrite K in Dt. exact Dt.
  - destruct Hi as [I1 [I2 [[I [Hd1 W]]|[e [k [K [A [B [C [D [E F]]]]]]]]]]]; [congruence|].
    exists (mk_row (e :: k)). unfold reduce_one. rewrite K.
    destruct B as [o [k' [-> Ho]]].
    destruct (inrowb_inv _ _ _ A) as [o' [oi [e1 [k'' [Ek _]]]]]. inversion Ek; subst o' k'. cbv beta iota.
    rewrite (add_operand_eq below (mk_row (e :: o :: e1 :: k'')) Hw). cbn [bind f_op]. split; [reflexivity|].
    assert (HA : head_ann (o :: e1 :: k'') (f_op top)) by (exists o, (e1 :: k''); auto).
    assert (KM := kind_mk_row_in e _ (f_op top) A HA C).
    split.
    + apply sinv_add_operand; auto.
      * unfold closedb. rewrite KM. apply N.ltb_lt. exact Hc.
      * unfold openb. rewrite KM. destruct Hm as [Hm|[Hm1 Hm2]].
        -- apply N.ltb_lt in Hm. rewrite Hm. reflexivity.
        -- rewrite Hm1, N.eqb_refl, Hm2. apply orb_true_r.
    + constructor; [|exact Dr]. unfold fdeep, with_operand. cbn [f_kids deep_list forallb].
      unfold fdeep in Db. unfold deep_list in Db. rewrite Db, andb_true_r. apply deep_mk_row.
      * exact (rowr_ok_in e _ (f_op top) A HA C F).
      * unfold fdeep in Dt. rewrite K in Dt. exact Dt.
Qed.

(* ---------------------------------------------------------------- reduce_stack *)
Definition top_full (st : stack) : Prop := exists top rest, st = top :: rest /\ f_operand top = true.

Lemma reduce_loop_inv : forall fuel cur prev st st',
  sinv (closedb cur) st -> Forall fdeep st ->
  (exists top rest, st = top :: rest /\ f_operand top = true /\ prev = o_prio (f_op top)) ->
  reduce_loop fuel cur prev st = Ok st' ->
  sinv (closedb cur) st' /\ Forall fdeep st' /\
  (exists top' rest', st' = top' :: rest' /\ f_operand top' = true /\ (rest' = [] \/ o_prio (f_op top') <= cur)).
Proof.
  induction fuel as [|fuel IH]; intros cur prev st st' Hs Hd [top [rest [-> [Hf ->]]]] H.
  - cbn [reduce_loop] in H. destruct (cur <? o_prio (f_op top)) eqn:E.
    + destruct rest as [|below rest]; [|discriminate]. inversion H; subst. split; [auto|]. split; [auto|].
      exists top, []. auto.
    + inversion H; subst. split; [auto|]. split; [auto|]. exists top, rest. split; [auto|]. split; [auto|].
      right. apply N.ltb_ge. exact E.
  - cbn [reduce_loop] in H. destruct (cur <? o_prio (f_op top)) eqn:E.
    + destruct rest as [|below rest].
      * inversion H; subst. split; [auto|]. split; [auto|]. exists top, []. auto.
      * apply N.ltb_lt in E. destruct (reduce_one_inv cur top below rest Hs Hf E Hd) as [m [R [Hs' Hd']]].
        rewrite R in H. cbn [bind fst snd] in H.
        eapply IH; [exact Hs' | exact Hd' | | exact H].
        exists (with_operand below m), rest. split; [reflexivity|]. split; reflexivity.
    + inversion H; subst. split; [auto|]. split; [auto|]. exists top, rest. split; [auto|]. split; [auto|].
      right. apply N.ltb_ge. exact E.
Qed.

Lemma reduce_inv : forall cur st st',
  sinv (closedb cur) st -> Forall fdeep st -> top_full st -> reduce cur st = Ok st' ->
  sinv (closedb cur) st' /\ Forall fdeep st' /\
  (exists top' rest', st' = top' :: rest' /\ f_operand top' = true /\ (rest' = [] \/ o_prio (f_op top') <= cur)).
Proof.
  intros cur st st' Hs Hd [top [rest [-> Hf]]] H. unfold reduce in H.
  eapply reduce_loop_inv; eauto.
Qed.

(* ---------------------------------------------------------------- taking the pending operand out of the top frame *)
Definition without_last (f : frame) : frame := Fr (tl (f_kids f)) (f_ch f) (f_op f) false.

Lemma remove_last_eq : forall f, f_operand f = true -> f_kids f <> [] ->
  exists e, f_kids f = e :: tl (f_kids f) /\ remove_last_operand f = Ok (e, without_last f).
Proof.
  intros f Hf Hk. destruct (f_kids f) as [|e r] eqn:K; [congruence|]. exists e. split; [reflexivity|].
  unfold remove_last_operand, without_last. rewrite K, Hf. reflexivity.
Qed.

Lemma sinv_full_kids : forall pend top rest, sinv pend (top :: rest) -> f_operand top = true ->
  exists e, f_kids top = e :: tl (f_kids top) /\ pann e = None /\ pend e = true.
Proof.
  intros pend top rest Hs Hf. destruct rest as [|g rest]; cbn [sinv] in Hs.
  - destruct Hs as [_ [[_ W]|[e [K [A [_ P]]]]]]; [congruence|]. exists e. rewrite K. auto.
  - destruct Hs as [[Hp|[Hi _]] _].
    + destruct Hp as [_ [_ [[p [K [A W]]]|[p [e [K [A [B [C [D E]]]]]]]]]]; [congruence|]. exists e. rewrite K. auto.
    + destruct Hi as [_ [_ [[I [Hd W]]|[e [k [K [A [B [C [D [E F]]]]]]]]]]]; [congruence|]. exists e. rewrite K. auto.
Qed.

Lemma sinv_remove_last : forall pend q top rest, sinv pend (top :: rest) -> f_operand top = true ->
  sinv q (without_last top :: rest).
Proof.
  intros pend q top rest Hs Hf. destruct rest as [|g rest]; cbn [sinv] in *.
  - destruct Hs as [H0 [[_ W]|[e [K [A [_ P]]]]]]; [congruence|]. split; [exact H0|]. left.
    unfold without_last. cbn [f_kids f_operand]. rewrite K. auto.
  - destruct Hs as [[Hp|[Hi Hm]] Hr]; split; auto.
    + left. destruct Hp as [P1 [P2 [[p [K [A W]]]|[p [e [K [A [B [C [D E]]]]]]]]]]; [congruence|].
      split; [exact P1|]. split; [exact P2|]. left. exists p. unfold without_last. cbn [f_kids f_operand f_op]. rewrite K. auto.
    + right. split; [|exact Hm]. destruct Hi as [I1 [I2 [[I [Hd W]]|[e [k [K [A [B [C [D [E F]]]]]]]]]]]; [congruence|].
      split; [exact I1|]. split; [exact I2|]. left. unfold without_last. cbn [f_kids f_operand f_op]. rewrite K. auto.
Qed.

Lemma inrowb_reclass : forall r c c' k, is_nary c' c = true -> inrowb r c k = true -> inrowb r c' k = true.
Proof.
  intros r c c' k Hn. remember (List.length k) as n eqn:Hl. revert k Hl.
  induction n as [n IH] using (well_founded_induction lt_wf). intros k Hl H.
  destruct (inrowb_inv _ _ _ H) as [o [oi [e [k' [-> [A [B [C [D [E F]]]]]]]]]].
  cbn [inrowb]. rewrite A. unfold ann_none. rewrite D, E, C, N.eqb_refl.
  assert (N1 : is_nary oi c' = true).
  { rewrite is_nary_sym in Hn. eapply is_nary_trans; eauto. }
  rewrite N1. cbn [andb]. destruct F as [->|F]; [reflexivity|]. destruct k' as [|x k']; [reflexivity|].
  eapply IH; [| reflexivity | exact F]. subst n. cbn [List.length]. lia.
Qed.

(* ---------------------------------------------------------------- operators *)
Lemma ty2_facts : forall o, o_ty o = 2 -> is_prefix o = false /\ is_postfix o = false /\ is_right_fence o = false /\ is_left_fence o = false /\ is_infix o = true.
Proof. intros [ty pr ce] H. cbn in H. subst ty. repeat split; reflexivity. Qed.
Lemma fencepost_ty : o_ty op_fencepost = 9 /\ o_prio op_fencepost = 0.
Proof. split; reflexivity. Qed.

Section Machine.
  Variable good : opinfo -> Prop.
  Hypothesis good_nary : forall a b, good a -> good b -> is_nary a b = true -> o_prio a = o_prio b /\ o_ty a = o_ty b.
  Hypothesis good_fencepost : good op_fencepost.
  Hypothesis good_not_illegal : forall a, good a -> ptr_eq a op_illegal = false.

  Definition sgood (st : stack) : Prop := Forall (fun f => good (f_op f)) st.
  Definition top_waiting (st : stack) : Prop := exists top rest, st = top :: rest /\ f_operand top = false.

  Definition push_infix (st : stack) (c : ptree) (ch : str) (op : opinfo) : res stack :=
    do st1 <- reduce (o_prio op) st;
    do sh <- shift st1 c ch op;
    let '(st2, c2, (ch2, op2)) := sh in add_to_top st2 c2 ch2 op2.

  (* the frame an n-ary operator extends is an infix frame *)
  Lemma nary_top_is_infix : forall pend top rest op,
    sinv pend (top :: rest) -> good (f_op top) -> good op -> o_ty op = 2 -> is_nary op (f_op top) = true ->
    rest <> [] /\ o_prio op = o_prio (f_op top) /\ o_ty (f_op top) = 2.
  Proof.
    intros pend top rest op Hs Gt Go Ht Hn. destruct (good_nary _ _ Go Gt Hn) as [P T]. rewrite Ht in T.
    split; [|auto]. intro E. subst rest. cbn [sinv] in Hs. destruct Hs as [H0 _]. rewrite H0 in T.
    destruct fencepost_ty as [F _]. rewrite F in T. discriminate.
  Qed.

  Lemma push_infix_inv : forall st c ch op st',
    sinv solidb st -> Forall fdeep st -> sgood st -> top_full st ->
    good op -> o_ty op = 2 -> 20 < o_prio op -> deep_okb c = true ->
    push_infix st c ch op = Ok st' ->
    sinv solidb st' /\ Forall fdeep st' /\ sgood st' /\ top_waiting st'.
  Proof.
    intros st c ch op st' Hs Hd Hg Hf Go Ht Hp Dc H.
    unfold push_infix in H. apply bind_ok in H. destruct H as [st1 [R H]].
    assert (Hs0 : sinv (closedb (o_prio op)) st) by (eapply sinv_weaken; [|exact Hs]; intros; apply solid_closed; auto).
    destruct (reduce_inv _ _ _ Hs0 Hd Hf R) as [Hs1 [Hd1 [T [rest [-> [Tf Tp]]]]]].
    assert (Hg1 : sgood (T :: rest)).
    { clear - Hg R Hf. destruct Hf as [top [r0 [-> _]]]. unfold reduce in R.
      remember (List.length (top :: r0)) as fuel eqn:Ef. clear Ef.
      remember (o_prio (f_op top)) as prev eqn:Ep. clear Ep. remember (top :: r0) as st eqn:Es. clear Es top r0.
      revert prev st Hg R. induction fuel as [|fuel IH]; intros prev st Hg R; cbn [reduce_loop] in R.
      - destruct (o_prio op <? prev); [destruct st as [|a [|b r]]; try discriminate|]; inversion R; subst; auto.
      - destruct (o_prio op <? prev); [|inversion R; subst; auto].
        destruct st as [|a [|b r]]; [| inversion R; subst; auto |].
        + cbn in R. discriminate.
        + apply bind_ok in R. destruct R as [[p s2] [R1 R2]]. cbn [fst snd] in R2.
          apply (IH p s2); [|exact R2]. unfold reduce_one in R1. apply bind_ok in R1. destruct R1 as [b' [A1 A2]].
          inversion A2; subst. inversion Hg as [|? ? Ga Hg']; subst. inversion Hg' as [|? ? Gb Hr]; subst.
          constructor; [|exact Hr]. unfold add_child in A1. rewrite ptr_eq_illegal in A1.
          destruct (f_operand b); [discriminate|]. inversion A1; subst. exact Gb. }
    destruct (ty2_facts op Ht) as [F1 [F2 [F3 [F4 F5]]]].
    inversion Hg1 as [|? ? GT Gr]; subst. inversion Hd1 as [|? ? DT Dr]; subst.
    destruct (sinv_full_kids _ _ _ Hs1 Tf) as [e [K [Ea Ep]]].
    apply bind_ok in H. destruct H as [[[st2 c2] [ch2 op2]] [Sh H]].
    unfold shift in Sh. destruct (is_nary op (f_op T)) eqn:En.
    - (* n-ary: the operator extends the row on top of the stack *)
      inversion Sh; subst st2 c2 ch2 op2. clear Sh.
      destruct (nary_top_is_infix _ _ _ _ Hs1 GT Go Ht En) as [Hne [Pe Te]].
      destruct rest as [|g rest]; [congruence|]. unfold add_to_top in H.
      rewrite (add_operator_eq T c ch op (good_not_illegal _ Go)) in H. cbn [bind] in H. inversion H; subst st'. clear H.
      apply sinv_cons in Hs1. destruct Hs1 as [Hk [Hw Hr]].
      assert (Hi : in_inv (closedb (o_prio op)) T /\ mono T g).
      { destruct Hk as [[P1 _]|Hi]; [|exact Hi]. exfalso. unfold is_prefix, has_type in P1. rewrite Te in P1. discriminate. }
      destruct Hi as [[I1 [I2 [[I [Hd1' W]]|[e' [k [K' [A [B [C [D [E F]]]]]]]]]]] Hm]; [congruence|].
      rewrite K' in K. inversion K; subst e'. clear K.
      split; [|split; [|split]].
      + apply sinv_cons. split; [|split; auto]. right. split.
        * split; [exact Ht|]. split; [exact Hp|]. left. cbn [f_kids f_op f_operand]. split; [|split; [|reflexivity]].
          -- rewrite K'. cbn [inrowb]. rewrite pann_set_ann. rewrite is_nary_refl, N.eqb_refl. unfold ann_none. rewrite C.
             rewrite Ep. cbn [andb]. destruct B as [o [k' [-> Ho]]].
             rewrite Pe. apply (inrowb_reclass _ (f_op T)); [exact En|]. exact A.
          -- exists (set_ann (Some op) c), (f_kids T). split; [reflexivity|]. apply pann_set_ann.
        * unfold mono in *. cbn [f_op]. rewrite Pe. destruct Hm as [Hm|[Hm1 Hm2]]; [left; exact Hm|right]. split; [exact Hm1|].
          eapply is_nary_false_l; eauto.
      + constructor; [|exact Dr]. unfold fdeep in *. cbn [f_kids deep_list forallb]. rewrite deep_set_ann, Dc. exact DT.
      + constructor; [exact Go | exact Gr].
      + exists (Fr (set_ann (Some op) c :: f_kids T) ch op false), (g :: rest). auto.
    - (* a new row starts with the pending operand *)
      assert (Kn : null (f_kids T) = false) by (rewrite K; reflexivity).
      rewrite Kn, Tf, F3, F2 in Sh. cbn [negb orb andb] in Sh.
      assert (Kne : f_kids T <> []) by (rewrite K; discriminate).
      destruct (remove_last_eq T Tf Kne) as [e2 [K2 RL]]. rewrite RL in Sh. cbn [bind fst snd] in Sh.
      inversion Sh; subst st2 c2 ch2 op2. clear Sh.
      rewrite K in K2. inversion K2; subst e2. clear K2.
      unfold add_to_top in H. rewrite (add_operator_eq _ c ch op (good_not_illegal _ Go)) in H. cbn [bind] in H.
      inversion H; subst st'. clear H. unfold with_op. cbn [f_kids].
      split; [|split; [|split]].
      + apply sinv_cons. split; [|split; [reflexivity|]].
        * right. split.
          -- split; [exact Ht|]. split; [exact Hp|]. left. cbn [f_kids f_op f_operand]. split; [|split; [|reflexivity]].
             ++ cbn [inrowb]. rewrite !pann_set_ann. rewrite is_nary_refl, N.eqb_refl. unfold ann_none. rewrite pann_set_ann.
                rewrite closedb_set_ann, Ep. reflexivity.
             ++ exists (set_ann (Some op) c), [set_ann None e]. split; [reflexivity|]. apply pann_set_ann.
          -- unfold mono. cbn [f_op without_last]. destruct Tp as [->|Tp].
             ++ cbn [sinv] in Hs1. destruct Hs1 as [H0 _]. rewrite H0. destruct fencepost_ty as [_ F0]. rewrite F0. left. lia.
             ++ destruct (N.eq_dec (o_prio (f_op T)) (o_prio op)) as [Eq|Ne]; [right; split; assumption | left; lia].
        * eapply sinv_remove_last; eauto.
      + constructor; [|constructor; [|exact Dr]].
        * unfold fdeep. cbn [f_kids deep_list forallb]. rewrite !deep_set_ann, Dc. unfold fdeep, deep_list in DT. rewrite K in DT.
          cbn [forallb] in DT. apply andb_true_iff in DT. destruct DT as [DT1 _]. rewrite DT1. reflexivity.
        * unfold fdeep, without_last. cbn [f_kids]. unfold fdeep, deep_list in DT. rewrite K in DT. cbn [forallb] in DT.
          apply andb_true_iff in DT. destruct DT as [_ DT2]. rewrite K. exact DT2.
      + constructor; [exact Go|]. constructor; [exact GT | exact Gr].
      + eexists _, _. split; [reflexivity|]. reflexivity.
  Qed.

  (* ---------------- postfix operators *)
  Lemma frame_op_ty : forall pend top rest, sinv pend (top :: rest) -> is_prefix (f_op top) = true \/ o_ty (f_op top) = 2.
  Proof.
    intros pend top rest Hs. destruct rest as [|g rest]; cbn [sinv] in Hs.
    - destruct Hs as [H0 _]. rewrite H0. left. reflexivity.
    - destruct Hs as [[[P _]|[[I _] _]] _]; auto.
  Qed.

  Lemma ty4_facts : forall o, o_ty o = 4 -> is_prefix o = false /\ is_postfix o = true /\ is_right_fence o = false.
  Proof. intros [ty pr ce] H. cbn in H. subst ty. repeat split; reflexivity. Qed.
  Lemma ty12_facts : forall o, o_ty o = 12 -> is_prefix o = false /\ is_postfix o = true /\ is_right_fence o = true.
  Proof. intros [ty pr ce] H. cbn in H. subst ty. repeat split; reflexivity. Qed.

  Lemma not_nary_post : forall pend top rest op, sinv pend (top :: rest) -> good (f_op top) -> good op ->
    (o_ty op = 4 \/ o_ty op = 12) -> is_nary op (f_op top) = false.
  Proof.
    intros pend top rest op Hs Gt Go Ht. destruct (is_nary op (f_op top)) eqn:E; [|reflexivity]. exfalso.
    destruct (good_nary _ _ Go Gt E) as [_ T]. destruct (frame_op_ty _ _ _ Hs) as [P|P].
    - unfold is_prefix, has_type in P. rewrite <- T in P. destruct Ht as [Ht|Ht]; rewrite Ht in P; discriminate.
    - rewrite P in T. destruct Ht as [Ht|Ht]; rewrite Ht in T; discriminate.
  Qed.

  Lemma sgood_reduce : forall cur st st', sgood st -> reduce cur st = Ok st' -> sgood st'.
  Proof.
    intros cur st st' Hg R. unfold reduce in R. destruct st as [|top r0]; [discriminate|].
    remember (List.length (top :: r0)) as fuel eqn:Ef. clear Ef.
    remember (o_prio (f_op top)) as prev eqn:Ep. clear Ep. remember (top :: r0) as s eqn:Es. clear Es top r0.
    revert prev s Hg R. induction fuel as [|fuel IH]; intros prev s Hg R; cbn [reduce_loop] in R.
    - destruct (cur <? prev); [destruct s as [|a [|b r]]; try discriminate|]; inversion R; subst; auto.
    - destruct (cur <? prev); [|inversion R; subst; auto].
      destruct s as [|a [|b r]]; [| inversion R; subst; auto |].
      + cbn in R. discriminate.
      + apply bind_ok in R. destruct R as [[p s2] [R1 R2]]. cbn [fst snd] in R2.
        apply (IH p s2); [|exact R2]. unfold reduce_one in R1. apply bind_ok in R1. destruct R1 as [b' [A1 A2]].
        inversion A2; subst. inversion Hg as [|? ? Ga Hg']; subst. inversion Hg' as [|? ? Gb Hr]; subst.
        constructor; [|exact Hr]. unfold add_child in A1. rewrite ptr_eq_illegal in A1.
        destruct (f_operand b); [discriminate|]. inversion A1; subst. exact Gb.
  Qed.

  Lemma kind_mk_row_post : forall c e, pann e = None -> kind_of (mk_row [c; e]) = KSolid.
  Proof.
    intros c e He. unfold kind_of. rewrite is_added_mk_row. unfold mk_row. cbn [pkids negb]. rewrite rev_involutive.
    rewrite He. reflexivity.
  Qed.

  Definition push_postfix (st : stack) (c : ptree) (ch : str) (op : opinfo) : res stack :=
    do st1 <- reduce (o_prio op) st;
    do sh <- shift st1 c ch op;
    let '(st2, c2, (ch2, op2)) := sh in add_to_top st2 c2 ch2 op2.

  Lemma push_postfix_inv : forall st c ch op st',
    sinv solidb st -> Forall fdeep st -> sgood st -> top_full st ->
    good op -> o_ty op = 4 -> deep_okb c = true ->
    push_postfix st c ch op = Ok st' ->
    sinv solidb st' /\ Forall fdeep st' /\ sgood st' /\ top_full st'.
  Proof.
    intros st c ch op st' Hs Hd Hg Hf Go Ht Dc H.
    unfold push_postfix in H. apply bind_ok in H. destruct H as [st1 [R H]].
    assert (Hs0 : sinv (closedb (o_prio op)) st) by (eapply sinv_weaken; [|exact Hs]; intros; apply solid_closed; auto).
    destruct (reduce_inv _ _ _ Hs0 Hd Hf R) as [Hs1 [Hd1 [T [rest [-> [Tf Tp]]]]]].
    pose proof (sgood_reduce _ _ _ Hg R) as Hg1.
    destruct (ty4_facts op Ht) as [F1 [F2 F3]].
    inversion Hg1 as [|? ? GT Gr]; subst. inversion Hd1 as [|? ? DT Dr]; subst.
    destruct (sinv_full_kids _ _ _ Hs1 Tf) as [e [K [Ea Ep]]].
    apply bind_ok in H. destruct H as [[[st2 c2] [ch2 op2]] [Sh H]].
    unfold shift in Sh. rewrite (not_nary_post _ _ _ op Hs1 GT Go (or_introl Ht)) in Sh.
    assert (Kn : null (f_kids T) = false) by (rewrite K; reflexivity).
    rewrite Kn, Tf, F3, F2 in Sh. cbn [negb orb andb] in Sh.
    assert (Kne : f_kids T <> []) by (rewrite K; discriminate).
    destruct (remove_last_eq T Tf Kne) as [e2 [K2 RL]]. rewrite RL in Sh. cbn [bind fst snd] in Sh.
    rewrite K in K2. inversion K2; subst e2. clear K2.
    unfold with_op in Sh. rewrite (add_operator_eq _ c ch op (good_not_illegal _ Go)) in Sh. cbn [bind f_kids] in Sh.
    inversion Sh; subst st2 c2 ch2 op2. clear Sh.
    unfold add_to_top in H.
    assert (Wl : f_operand (without_last T) = false) by reflexivity.
    rewrite (add_operand_eq (without_last T) _ Wl) in H. cbn [bind] in H. inversion H; subst st'. clear H.
    match goal with |- context [Fr (?x :: _) _ _ true] => set (m := x) end.
    assert (Em : m = mk_row [set_ann (Some op) c; set_ann None e]) by reflexivity.
    assert (Km : kind_of m = KSolid) by (rewrite Em; apply kind_mk_row_post; apply pann_set_ann).
    unfold fdeep, deep_list in DT. rewrite K in DT. cbn [forallb] in DT. apply andb_true_iff in DT. destruct DT as [DT1 DT2].
    assert (Dm : deep_okb m = true).
    { rewrite Em. apply deep_mk_row.
      + unfold rowr_okb. rewrite !pann_set_ann. rewrite F2, closedb_set_ann, Ep. reflexivity.
      + cbn [deep_list forallb]. rewrite !deep_set_ann, Dc, DT1. reflexivity. }
    assert (Am : pann m = None) by reflexivity.
    clear Em. clearbody m.
    split; [|split; [|split]].
    - apply (sinv_add_operand solidb (without_last T) rest m).
      + eapply sinv_remove_last; eauto.
      + reflexivity.
      + exact Am.
      + unfold solidb. rewrite Km. reflexivity.
      + unfold openb. rewrite Km. reflexivity.
    - constructor; [|exact Dr]. unfold fdeep. cbn [f_kids without_last deep_list forallb]. rewrite Dm. exact DT2.
    - constructor; [exact GT | exact Gr].
    - eexists _, _. split; reflexivity.
  Qed.

  (* ---------------- right fences *)
  Lemma script_not_mrow : forall g, is_script_tag g = true -> str_eqb g s_mrow = false.
  Proof.
    intros g H. unfold is_script_tag in H. apply orb_true_iff in H. destruct H as [H|H]; [apply orb_true_iff in H; destruct H as [H|H]|];
      apply str_eqb_eq in H; subst g; reflexivity.
  Qed.

  Lemma rowr_ok_fenced : forall c e p lf rf, pann p = Some lf -> is_left_fence lf = true -> pann c = Some rf ->
    is_right_fence rf = true -> pann e = None -> rowr_okb [c; e; p] = true.
  Proof.
    intros c e p lf rf Hp Hl Hc Hr He. unfold rowr_okb. cbn [last]. rewrite Hp, Hl, Hc, Hr. unfold ann_none. rewrite He. reflexivity.
  Qed.

  Lemma lift_script_ok : forall c e p lf rf m2,
    pann p = Some lf -> is_left_fence lf = true -> pann c = Some rf -> is_right_fence rf = true -> pann e = None ->
    deep_okb c = true -> deep_okb e = true -> deep_okb p = true ->
    potentially_lift_script (mk_row [c; e; p]) = Ok m2 -> solidb m2 = true /\ deep_okb m2 = true.
  Proof.
    intros c e p lf rf m2 Hp Hl Hc Hr He Dc De Dp H.
    assert (Rk : rowr_okb [c; e; p] = true) by (eapply rowr_ok_fenced; eauto).
    assert (Sm : solidb (mk_row [c; e; p]) = true).
    { unfold solidb, kind_of. rewrite is_added_mk_row. unfold mk_row. cbn [pkids negb]. rewrite rev_involutive.
      cbn [last]. rewrite Hp. reflexivity. }
    assert (Dm : deep_okb (mk_row [c; e; p]) = true).
    { apply deep_mk_row; [exact Rk|]. cbn [deep_list forallb]. rewrite Dc, De, Dp. reflexivity. }
    unfold potentially_lift_script in H.
    change (tag_is (mk_row [c; e; p]) s_mrow) with true in H. cbn [negb] in H.
    change (pkids (mk_row [c; e; p])) with [p; e; c] in H. cbn [rev app] in H.
    destruct (tag_is p s_mo && is_fence_mo p && is_script_tag (ptag c)) eqn:Cond; [|inversion H; subst; auto].
    destruct (pkids c) as [|base scripts] eqn:Kc; [discriminate|].
    destruct (tag_is base s_mo && is_fence_mo base) eqn:Cb; [|inversion H; subst; auto].
    inversion H; subst m2. clear H.
    apply andb_true_iff in Cond. destruct Cond as [_ Sc].
    pose proof (script_not_mrow _ Sc) as NM.
    destruct c as [ca cg cat ck cx]. cbn [pkids ptag pann set_kids set_ann] in *. subst ck.
    split.
    - unfold solidb, kind_of, is_added, tag_is. cbn [ptag]. rewrite NM. reflexivity.
    - rewrite deep_okb_unfold. unfold is_built, tag_is. cbn [ptag pkids]. rewrite NM. cbn [andb].
      rewrite deep_okb_unfold in Dc. cbn [pkids] in Dc. apply andb_true_iff in Dc. destruct Dc as [_ Dk].
      cbn [deep_list forallb] in Dk. apply andb_true_iff in Dk. destruct Dk as [Db Ds].
      cbn [deep_list forallb]. unfold deep_list in Ds. rewrite Ds, andb_true_r.
      match goal with |- deep_okb ?x = true => change x with (mk_row [set_ann ca base; e; p]) end.
      apply deep_mk_row.
      + eapply rowr_ok_fenced; eauto. rewrite pann_set_ann. exact Hc.
      + cbn [deep_list forallb]. rewrite deep_set_ann, Db, De, Dp. reflexivity.
  Qed.

  Lemma push_rfence_inv : forall st c ch op st',
    sinv solidb st -> Forall fdeep st -> sgood st -> top_full st ->
    good op -> o_ty op = 12 -> o_prio op <= 20 -> deep_okb c = true ->
    push_postfix st c ch op = Ok st' ->
    sinv solidb st' /\ Forall fdeep st' /\ sgood st' /\ top_full st'.
  Proof.
    intros st c ch op st' Hs Hd Hg Hf Go Ht Hp Dc H.
    unfold push_postfix in H. apply bind_ok in H. destruct H as [st1 [R H]].
    assert (Hs0 : sinv (closedb (o_prio op)) st) by (eapply sinv_weaken; [|exact Hs]; intros; apply solid_closed; auto).
    destruct (reduce_inv _ _ _ Hs0 Hd Hf R) as [Hs1 [Hd1 [T [rest [-> [Tf Tp]]]]]].
    pose proof (sgood_reduce _ _ _ Hg R) as Hg1.
    destruct (ty12_facts op Ht) as [F1 [F2 F3]].
    inversion Hg1 as [|? ? GT Gr]; subst. inversion Hd1 as [|? ? DT Dr]; subst.
    apply bind_ok in H. destruct H as [[[st2 c2] [ch2 op2]] [Sh H]].
    unfold shift in Sh. rewrite (not_nary_post _ _ _ op Hs1 GT Go (or_intror Ht)) in Sh.
    destruct (sinv_full_kids _ _ _ Hs1 Tf) as [e0 [K0 _]].
    assert (Kn : null (f_kids T) = false) by (rewrite K0; reflexivity).
    rewrite Kn, Tf, F3 in Sh. cbn [negb orb andb] in Sh.
    rewrite (add_operator_eq T c ch op (good_not_illegal _ Go)) in Sh. cbn [bind f_kids] in Sh.
    destruct rest as [|g rest].
    - (* the bottom frame: the closed row becomes the operand of a fresh bottom frame *)
      cbn [null] in Sh. inversion Sh; subst st2 c2 ch2 op2. clear Sh.
      cbn [sinv] in Hs1. destruct Hs1 as [H0 [[_ W]|[e [K [A [_ P]]]]]]; [congruence|].
      unfold add_to_top in H. rewrite (add_operand_eq new_frame _ eq_refl) in H. cbn [bind] in H. inversion H; subst st'. clear H.
      rewrite K.
      match goal with |- context [Fr (?x :: _) _ _ true] => set (m := x) end.
      assert (Em : m = mk_row [set_ann (Some op) c; e]) by reflexivity.
      assert (Km : kind_of m = KSolid) by (rewrite Em; apply kind_mk_row_post; exact A).
      unfold fdeep, deep_list in DT. rewrite K in DT. cbn [forallb] in DT. rewrite andb_true_r in DT.
      assert (Dm : deep_okb m = true).
      { rewrite Em. apply deep_mk_row.
        + unfold rowr_okb. rewrite pann_set_ann, A, F2, P. reflexivity.
        + cbn [deep_list forallb]. rewrite deep_set_ann, Dc, DT. reflexivity. }
      assert (Am : pann m = None) by reflexivity. clear Em. clearbody m.
      split; [|split; [|split]].
      + cbn [sinv]. split; [reflexivity|]. right. exists m. cbn [f_kids f_operand new_frame]. repeat split; auto.
        unfold solidb. rewrite Km. reflexivity.
      + constructor; [|constructor]. unfold fdeep. cbn [f_kids new_frame deep_list forallb]. rewrite Dm. reflexivity.
      + constructor; [|constructor]. exact good_fencepost.
      + eexists _, _. split; reflexivity.
    - (* a left-fence frame *)
      cbn [null] in Sh. apply bind_ok in Sh. destruct Sh as [m2 [L Sh]]. inversion Sh; subst st2 c2 ch2 op2. clear Sh.
      apply sinv_cons in Hs1. destruct Hs1 as [Hk [Hw Hr]].
      destruct Tp as [Tp|Tp]; [discriminate|].
      assert (Hpre : pre_inv (closedb (o_prio op)) T).
      { destruct Hk as [Hk|[[_ [I2 _]] _]]; [exact Hk|]. exfalso. lia. }
      destruct Hpre as [P1 [P2 [[p [K [A W]]]|[p [e [K [A [B [C [D E]]]]]]]]]]; [congruence|].
      assert (Lf : is_left_fence (f_op T) = true) by (destruct P2 as [[P2 _]|P2]; [exact P2 | exfalso; lia]).
      rewrite K in L.
      unfold fdeep, deep_list in DT. rewrite K in DT. cbn [forallb] in DT. rewrite andb_true_r in DT.
      apply andb_true_iff in DT. destruct DT as [De Dp].
      assert (Ac : pann (set_ann (Some op) c) = Some op) by apply pann_set_ann.
      assert (Dc' : deep_okb (set_ann (Some op) c) = true) by (rewrite deep_set_ann; exact Dc).
      destruct (lift_script_ok _ e p (f_op T) op m2 A Lf Ac F3 B Dc' De Dp L) as [Sm Dm].
      unfold add_to_top in H. rewrite (add_operand_eq g _ Hw) in H. cbn [bind] in H. inversion H; subst st'. clear H.
      inversion Dr as [|? ? Dg Dr']; subst. inversion Gr as [|? ? Gg Gr']; subst.
      split; [|split; [|split]].
      + apply (sinv_add_operand solidb g rest (set_ann None m2)).
        * eapply sinv_waiting; eauto.
        * exact Hw.
        * apply pann_set_ann.
        * rewrite solidb_set_ann. exact Sm.
        * apply solid_open. rewrite solidb_set_ann. exact Sm.
      + constructor; [|exact Dr']. unfold fdeep in *. cbn [f_kids deep_list forallb]. rewrite deep_set_ann, Dm. exact Dg.
      + constructor; [exact Gg | exact Gr'].
      + eexists _, _. split; reflexivity.
  Qed.

  (* ---------------- implied operators, prefix operators and left fences *)
  Lemma shift_ty2 : forall st c ch op st2 c2 ch2 op2, o_ty op = 2 ->
    shift st c ch op = Ok (st2, c2, (ch2, op2)) -> c2 = c /\ ch2 = ch /\ op2 = op.
  Proof.
    intros st c ch op st2 c2 ch2 op2 Ht H. destruct (ty2_facts op Ht) as [F1 [F2 [F3 [F4 F5]]]].
    unfold shift in H. destruct st as [|top rest]; [discriminate|].
    destruct (is_nary op (f_op top)); [inversion H; auto|].
    destruct (null (f_kids top) || negb (f_operand top) && negb (is_right_fence op)); [inversion H; auto|].
    rewrite F3, F2 in H. apply bind_ok in H. destruct H as [pr [_ H]]. inversion H; auto.
  Qed.

  Lemma push_implied_eq : forall st mo ch op, o_ty op = 2 -> push_implied st mo ch op = push_infix st mo ch op.
  Proof.
    intros st mo ch op Ht. unfold push_implied, push_infix. destruct (reduce (o_prio op) st) as [st1| | |]; cbn [bind]; try reflexivity.
    destruct (shift st1 mo ch op) as [[[st2 c2] [ch2 op2]]| | |] eqn:Sh; cbn [bind]; try reflexivity.
    destruct (shift_ty2 _ _ _ _ _ _ _ _ Ht Sh) as [-> [-> ->]]. unfold ptr_eq. rewrite N.eqb_refl. reflexivity.
  Qed.

  Inductive wf_dec (st : stack) : decision -> Prop :=
  | WOperand : forall c, top_waiting st -> solidb c = true -> deep_okb c = true -> wf_dec st (DOperand c)
  | WJuxta : forall imo ich iop c, top_full st -> good iop -> o_ty iop = 2 -> 20 < o_prio iop -> deep_okb imo = true ->
      solidb c = true -> deep_okb c = true -> wf_dec st (DJuxta imo ich iop c)
  | WInfix : forall c ch op, top_full st -> good op -> o_ty op = 2 -> 20 < o_prio op -> deep_okb c = true ->
      wf_dec st (DOp c ch op None)
  | WPostfix : forall c ch op, top_full st -> good op -> o_ty op = 4 -> deep_okb c = true -> wf_dec st (DOp c ch op None)
  | WRight : forall c ch op, top_full st -> good op -> o_ty op = 12 -> o_prio op <= 20 -> deep_okb c = true ->
      wf_dec st (DOp c ch op None)
  | WPrefix : forall c ch op, top_waiting st -> good op ->
      ((o_ty op = 1 /\ 20 < o_prio op) \/ (o_ty op = 9 /\ 0 < o_prio op)) -> deep_okb c = true ->
      wf_dec st (DOp c ch op None)
  | WPrefixAfter : forall c ch op imo ich iop, top_full st -> good op ->
      ((o_ty op = 1 /\ 20 < o_prio op) \/ (o_ty op = 9 /\ 0 < o_prio op)) -> deep_okb c = true ->
      good iop -> o_ty iop = 2 -> 20 < o_prio iop -> deep_okb imo = true ->
      wf_dec st (DOp c ch op (Some (imo, ich, iop))).

  Definition inv (st : stack) : Prop := sinv solidb st /\ Forall fdeep st /\ sgood st.

  Lemma prefix_ty_facts : forall op, ((o_ty op = 1 /\ 20 < o_prio op) \/ (o_ty op = 9 /\ 0 < o_prio op)) ->
    is_prefix op = true /\ (is_left_fence op || is_prefix op = true) /\
    ((is_left_fence op = true /\ 0 < o_prio op) \/ 20 < o_prio op).
  Proof.
    intros [ty pr ce] [[H1 H2]|[H1 H2]]; cbn in H1, H2; subst ty.
    - split; [reflexivity|]. split; [reflexivity|]. right. exact H2.
    - split; [reflexivity|]. split; [reflexivity|]. left. split; [reflexivity | exact H2].
  Qed.

  Lemma push_prefix_inv : forall st c ch op,
    inv st -> top_waiting st -> good op ->
    ((o_ty op = 1 /\ 20 < o_prio op) \/ (o_ty op = 9 /\ 0 < o_prio op)) -> deep_okb c = true ->
    exists st', add_to_top (new_frame :: st) c ch op = Ok st' /\ inv st' /\ top_waiting st'.
  Proof.
    intros st c ch op [Hs [Hd Hg]] [top [rest [-> Hw]]] Go Ht Dc.
    destruct (prefix_ty_facts op Ht) as [P1 [P2 P3]].
    unfold add_to_top. rewrite (add_operator_eq new_frame c ch op (good_not_illegal _ Go)). cbn [bind].
    eexists. split; [reflexivity|]. split; [split; [|split]|].
    - apply sinv_cons. split; [|split; [exact Hw|]].
      + left. split; [exact P1|]. split; [exact P3|]. left. exists (set_ann (Some op) c). cbn [f_kids f_op f_operand new_frame].
        repeat split. apply pann_set_ann.
      + eapply sinv_waiting; eauto.
    - constructor; [|exact Hd]. unfold fdeep. cbn [f_kids new_frame deep_list forallb]. rewrite deep_set_ann, Dc. reflexivity.
    - constructor; [exact Go | exact Hg].
    - eexists _, _. split; reflexivity.
  Qed.

  Lemma add_operand_inv : forall st c, inv st -> top_waiting st -> solidb c = true -> deep_okb c = true ->
    exists st', add_to_top st c (fst illegal_pair) op_illegal = Ok st' /\ inv st' /\ top_full st'.
  Proof.
    intros st c [Hs [Hd Hg]] [top [rest [-> Hw]]] Sc Dc.
    unfold add_to_top. rewrite (add_operand_eq top c Hw). cbn [bind]. eexists. split; [reflexivity|].
    inversion Hd as [|? ? Dt Dr]; subst. inversion Hg as [|? ? Gt Gr]; subst.
    split; [split; [|split]|].
    - apply sinv_add_operand; auto.
      + apply pann_set_ann.
      + rewrite solidb_set_ann. exact Sc.
      + apply solid_open. rewrite solidb_set_ann. exact Sc.
    - constructor; [|exact Dr]. unfold fdeep in *. cbn [f_kids deep_list forallb]. rewrite deep_set_ann, Dc. exact Dt.
    - constructor; [exact Gt | exact Gr].
    - eexists _, _. split; reflexivity.
  Qed.

  Theorem act_inv : forall st d st', inv st -> wf_dec st d -> act st d = Ok st' -> inv st'.
  Proof.
    intros st d st' Hi Hw H. destruct Hi as [Hs [Hd Hg]]. inversion Hw; subst; cbn [act] in H.
    - destruct (add_operand_inv st c (conj Hs (conj Hd Hg)) H0 H1 H2) as [s' [E [I _]]]. rewrite E in H. inversion H; subst. exact I.
    - rewrite (push_implied_eq _ _ _ _ H2) in H. apply bind_ok in H. destruct H as [st2 [P H]].
      destruct (push_infix_inv st imo ich iop st2 Hs Hd Hg H0 H1 H2 H3 H4 P) as [Hs2 [Hd2 [Hg2 Hw2]]].
      destruct (add_operand_inv st2 c (conj Hs2 (conj Hd2 Hg2)) Hw2 H5 H6) as [s' [E [I _]]]. rewrite E in H. inversion H; subst. exact I.
    - rewrite (good_not_illegal _ H1) in H. destruct (ty2_facts op H2) as [F1 [F2 [F3 [F4 F5]]]]. rewrite F4, F1 in H. cbn [orb] in H.
      destruct (push_infix_inv st c ch op st' Hs Hd Hg H0 H1 H2 H3 H4 H) as [A [B [C _]]]. split; auto.
    - rewrite (good_not_illegal _ H1) in H. destruct (ty4_facts op H2) as [F1 [F2 F3]].
      assert (F4 : is_left_fence op = false) by (destruct op as [ty pr ce]; cbn in H2; subst ty; reflexivity).
      rewrite F4, F1 in H. cbn [orb] in H.
      destruct (push_postfix_inv st c ch op st' Hs Hd Hg H0 H1 H2 H3 H) as [A [B [C _]]]. split; auto.
    - rewrite (good_not_illegal _ H1) in H. destruct (ty12_facts op H2) as [F1 [F2 F3]].
      assert (F4 : is_left_fence op = false) by (destruct op as [ty pr ce]; cbn in H2; subst ty; reflexivity).
      rewrite F4, F1 in H. cbn [orb] in H.
      destruct (push_rfence_inv st c ch op st' Hs Hd Hg H0 H1 H2 H3 H4 H) as [A [B [C _]]]. split; auto.
    - rewrite (good_not_illegal _ H1) in H. destruct (prefix_ty_facts op H2) as [P1 [P2 P3]]. rewrite P2 in H. cbn [bind] in H.
      destruct (push_prefix_inv st c ch op (conj Hs (conj Hd Hg)) H0 H1 H2 H3) as [s' [E [I _]]]. rewrite E in H. inversion H; subst. exact I.
    - rewrite (good_not_illegal _ H1) in H. destruct (prefix_ty_facts op H2) as [P1 [P2 P3]]. rewrite P2 in H.
      rewrite (push_implied_eq _ _ _ _ H5) in H. apply bind_ok in H. destruct H as [st2 [P H]].
      destruct (push_infix_inv st imo ich iop st2 Hs Hd Hg H0 H4 H5 H6 H7 P) as [Hs2 [Hd2 [Hg2 Hw2]]].
      destruct (push_prefix_inv st2 c ch op (conj Hs2 (conj Hd2 Hg2)) Hw2 H1 H2 H3) as [s' [E [I _]]]. rewrite E in H. inversion H; subst. exact I.
  Qed.

  (* ---------------- a whole row *)
  Fixpoint run (st : stack) (ds : list decision) : res stack :=
    match ds with [] => Ok st | d :: r => do st' <- act st d; run st' r end.

  Inductive wf_run : stack -> list decision -> Prop :=
  | wf_run_nil : forall st, wf_run st []
  | wf_run_cons : forall st d r, wf_dec st d -> (forall st', act st d = Ok st' -> wf_run st' r) -> wf_run st (d :: r).

  Theorem run_inv : forall ds st st', inv st -> wf_run st ds -> run st ds = Ok st' -> inv st'.
  Proof.
    induction ds as [|d r IH]; intros st st' Hi Hw H; cbn [run] in H.
    - inversion H; subst. exact Hi.
    - apply bind_ok in H. destruct H as [s1 [A H]]. inversion Hw; subst.
      eapply IH; [eapply act_inv; eauto | eauto | exact H].
  Qed.

  Lemma deep_set_attrs : forall a t, deep_okb (set_attrs a t) = deep_okb t.
  Proof. intros a [an g at_ k x]. reflexivity. Qed.

  Lemma deep_finish_attrs : forall parsed mrow merged, deep_okb (finish_attrs parsed mrow merged) = deep_okb parsed.
  Proof.
    intros parsed mrow merged. unfold finish_attrs, add_attrs. destruct merged; rewrite !deep_set_attrs; reflexivity.
  Qed.

  Lemma inv_new : inv [new_frame].
  Proof.
    split; [|split].
    - cbn [sinv]. split; [reflexivity|]. left. split; reflexivity.
    - constructor; [reflexivity | constructor].
    - constructor; [exact good_fencepost | constructor].
  Qed.

  Theorem finish_deep : forall mrow st t, inv st -> top_full st -> finish_row mrow st = Ok t -> deep_okb t = true.
  Proof.
    intros mrow st t [Hs [Hd Hg]] Hf H. unfold finish_row in H. apply bind_ok in H. destruct H as [st1 [R H]].
    assert (Hs0 : sinv (closedb (o_prio op_fencepost)) st) by (eapply sinv_weaken; [|exact Hs]; intros; apply solid_closed; auto).
    destruct (reduce_inv _ _ _ Hs0 Hd Hf R) as [Hs1 [Hd1 [T [rest [-> [Tf Tp]]]]]].
    destruct rest as [|g rest].
    - cbn [sinv] in Hs1. destruct Hs1 as [H0 [[_ W]|[e [K [A [_ P]]]]]]; [congruence|].
      inversion Hd1 as [|? ? DT _]; subst. unfold fdeep in DT. rewrite K in DT. cbn [deep_list forallb] in DT. rewrite andb_true_r in DT.
      rewrite K in H. inversion H; subst t. clear H. rewrite deep_set_ann. rewrite deep_finish_attrs.
      destruct (negb (List.length (pkids mrow) =? 1)%nat || negb (has_attr s_intent mrow)); [exact DT|].
      rewrite deep_okb_unfold. unfold is_built, mk_row. cbn [pkids tag_is ptag rev app existsb]. unfold ann_none. rewrite A.
      cbn [negb orb andb deep_list forallb]. rewrite DT. rewrite andb_false_r. reflexivity.
    - exfalso. destruct Tp as [Tp|Tp]; [discriminate|]. apply sinv_cons in Hs1. destruct Hs1 as [[Hp|[Hi _]] _].
      + destruct Hp as [_ [[[_ P]|P] _]]; destruct fencepost_ty as [_ F0]; rewrite F0 in Tp; lia.
      + destruct Hi as [_ [P _]]. destruct fencepost_ty as [_ F0]. rewrite F0 in Tp. lia.
  Qed.
End Machine.
