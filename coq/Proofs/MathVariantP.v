(* C18: specification vocabulary and proofs over the generated tables. *)
From MC Require Import Lib.Base Gen.MathVariant Gen.UcdMath Model.MathVariant.
From Coq Require Import String.
Local Open Scope N_scope.

(* ---------- reference vocabulary (UCD side) ---------- *)
Definition triple_key (e : str * N * N) : str * N := (fst (fst e), snd (fst e)).

Fixpoint ucd_lookup (sty : str) (c : N) (l : list (str * N * N)) : option N :=
  match l with
  | [] => None
  | (s, b, u) :: l' => if str_eqb sty s && (c =? b) then Some u else ucd_lookup sty c l'
  end.
Definition ucd (sty : str) (c : N) : option N := ucd_lookup sty c ucd_map.

Definition is_latin (c : N) : bool := ((65 <=? c) && (c <=? 90)) || ((97 <=? c) && (c <=? 122)).
Definition is_digit (c : N) : bool := (48 <=? c) && (c <=? 57).
Definition is_greek (c : N) : bool := ((0x391 <=? c) && (c <=? 0x3F5)) || (c =? 0x2207) || (c =? 0x2202).

Definition st_italic := S "italic".
Definition st_bold := S "bold".

(* plain italic Latin is MathML's default rendering of identifiers: documented as left unchanged *)
Definition expected_when_ucd (sty : str) (c u : N) : N :=
  if str_eqb sty st_italic && is_latin c then c else u.

(* documented fall-backs when Unicode has no character for (style, letter) *)
Definition greek_falls_back_to_bold (sty : str) : bool :=
  str_eqb sty (S "bold-script") || str_eqb sty (S "bold-fraktur").
Definition upright_sibling (sty : str) : option str :=
  if str_eqb sty (S "bold-italic") then Some (S "bold")
  else if str_eqb sty (S "sans-serif-italic") then Some (S "sans-serif")
  else if str_eqb sty (S "sans-serif-bold-italic") then Some (S "bold-sans-serif")
  else None.
Definition opt_is (o : option N) (r : N) : bool := match o with Some u => u =? r | None => false end.

Definition fallback_ok (sty : str) (c r : N) : bool :=
  (r =? c)
  || (is_greek c && greek_falls_back_to_bold sty && opt_is (ucd st_bold c) r)
  || (is_digit c && match upright_sibling sty with Some u => opt_is (ucd u c) r | None => false end).

Definition assigned (r : N) : bool := in_ranges r ucd_assigned.

(* ---------- generic facts about the model ---------- *)
Lemma shift_one_id_or_table : forall m c, shift_one m c = c \/ In c table_domain.
Proof.
  intros m c. unfold shift_one, table_domain.
  destruct (lookupN c shift_amounts) as [[off tbl]|] eqn:E.
  - right. apply in_or_app. left. eapply lookupN_Some_fst. exact E.
  - destruct (nth3 digamma_idx m =? digamma_cond); [|left; reflexivity].
    destruct (lookupN c digammas) eqn:E2; [|left; reflexivity].
    right. apply in_or_app. right. eapply lookupN_Some_fst. exact E2.
Qed.

Lemma plane1_char_id_or_table : forall v c, plane1_char v c = c \/ In c table_domain.
Proof.
  intros v c. unfold plane1_char. destruct (lookupS v math_variants); [apply shift_one_id_or_table | left; reflexivity].
Qed.

(* ---------- finite obligations, by evaluation over the generated tables ---------- *)
Definition matches_ucd_b : bool :=
  forallb (fun e => match e with (sty, c, u) => plane1_char sty c =? expected_when_ucd sty c u end) ucd_map.
Lemma matches_ucd_ok : matches_ucd_b = true.
Proof. vm_compute. reflexivity. Qed.

Definition fb_item (sty : str) (c : N) : bool :=
  match ucd sty c with Some _ => true | None => fallback_ok sty c (plane1_char sty c) end.
Definition fb_row (sty : str) : bool := forallb (fb_item sty) ucd_domain.
Lemma fallback_b_ok : forallb fb_row ucd_styles = true.
Proof. vm_compute. reflexivity. Qed.

Definition italic_latin_b : bool :=
  forallb (fun c => if is_latin c then plane1_char st_italic c =? c else true) table_domain.
Lemma italic_latin_ok : italic_latin_b = true.
Proof. vm_compute. reflexivity. Qed.

Definition valid_assigned_b : bool :=
  forallb (fun vm => forallb (fun c =>
     let r := shift_one (snd vm) c in (r =? c) || (valid_scalar r && assigned r)) table_domain) math_variants.
Lemma valid_assigned_ok : valid_assigned_b = true.
Proof. vm_compute. reflexivity. Qed.

Definition inj_domain : list N := nodup N.eq_dec (table_domain ++ ucd_domain).
Definition injective_b : bool :=
  forallb (fun vm => nodupN (map (shift_one (snd vm)) inj_domain)) math_variants.
Lemma injective_ok : injective_b = true.
Proof. vm_compute. reflexivity. Qed.

Definition names_b : bool :=
  forallb (fun s => existsb (str_eqb s) (map fst math_variants)) ucd_styles
  && forallb (fun s => existsb (str_eqb s) ucd_styles) (map fst math_variants).
Lemma names_ok : names_b = true.
Proof. vm_compute. reflexivity. Qed.

Definition tables_in_range_b : bool :=
  forallb (fun e => snd (snd e) <? 3) shift_amounts && (digamma_idx <? 3).
Lemma tables_in_range_ok : tables_in_range_b = true.
Proof. vm_compute. reflexivity. Qed.

(* ---------- the theorems, for all inputs ---------- *)
Lemma opt_none_case : forall (o : option N) (b : bool), o = None ->
  (match o with Some _ => true | None => b end) = true -> b = true.
Proof. intros o b Ho H. subst o. exact H. Qed.

Lemma L_variant_matches_ucd : forall sty c u, In (sty, c, u) ucd_map ->
  plane1_char sty c = expected_when_ucd sty c u.
Proof.
  intros sty c u Hin. pose proof matches_ucd_ok as H. unfold matches_ucd_b in H.
  rewrite forallb_forall in H. specialize (H _ Hin). cbn beta iota in H. apply N.eqb_eq in H. exact H.
Qed.

Lemma L_variant_fallback_documented : forall sty c, In sty ucd_styles -> In c ucd_domain -> ucd sty c = None ->
  fallback_ok sty c (plane1_char sty c) = true.
Proof.
  intros sty c Hs Hc Hn.
  pose proof (forallb_In fb_row ucd_styles sty fallback_b_ok Hs) as H1.
  pose proof (forallb_In (fb_item sty) ucd_domain c H1 Hc) as H2.
  exact (opt_none_case (ucd sty c) _ Hn H2).
Qed.

Lemma L_variant_plain_italic_identity : forall c, is_latin c = true -> plane1_char st_italic c = c.
Proof.
  intros c Hl. destruct (plane1_char_id_or_table st_italic c) as [H|H]; [exact H|].
  pose proof italic_latin_ok as Hb. unfold italic_latin_b in Hb. rewrite forallb_forall in Hb.
  specialize (Hb _ H). rewrite Hl in Hb. apply N.eqb_eq in Hb. exact Hb.
Qed.

Lemma shift_one_valid : forall v m c, In (v, m) math_variants ->
  shift_one m c = c \/ (valid_scalar (shift_one m c) = true /\ assigned (shift_one m c) = true).
Proof.
  intros v m c Hin. destruct (shift_one_id_or_table m c) as [H|H]; [left; exact H|].
  pose proof valid_assigned_ok as Hb. unfold valid_assigned_b in Hb. rewrite forallb_forall in Hb.
  specialize (Hb _ Hin). cbn [snd] in Hb. rewrite forallb_forall in Hb. specialize (Hb _ H). cbn zeta in Hb.
  apply orb_true_iff in Hb. destruct Hb as [Hb|Hb].
  - left. apply N.eqb_eq in Hb. exact Hb.
  - right. apply andb_true_iff in Hb. exact Hb.
Qed.

Lemma L_variant_valid_assigned : forall (variant : option str) (text : str) (r : N),
  In r (plane1 variant text) -> In r text \/ (valid_scalar r = true /\ assigned r = true).
Proof.
  intros variant text r Hin. unfold plane1 in Hin.
  destruct variant as [v|]; [|left; exact Hin].
  destruct (lookupS v math_variants) as [m|] eqn:E; [|left; exact Hin].
  unfold shift_text in Hin. apply in_map_iff in Hin. destruct Hin as [c [Hc Hin]].
  apply lookupS_In in E. destruct (shift_one_valid v m c E) as [H|H].
  - left. rewrite <- Hc, H. exact Hin.
  - right. rewrite <- Hc. exact H.
Qed.

Lemma in_inj_domain : forall c, In c table_domain \/ In c ucd_domain -> In c inj_domain.
Proof. intros c H. unfold inj_domain. apply nodup_In. apply in_or_app. exact H. Qed.

Lemma L_variant_injective_on_domain : forall sty c1 c2,
  (In c1 table_domain \/ In c1 ucd_domain) -> (In c2 table_domain \/ In c2 ucd_domain) ->
  plane1_char sty c1 = plane1_char sty c2 -> c1 = c2.
Proof.
  intros sty c1 c2 H1 H2. unfold plane1_char. destruct (lookupS sty math_variants) as [m|] eqn:E; [|trivial].
  apply lookupS_In in E. pose proof injective_ok as Hb. unfold injective_b in Hb. rewrite forallb_forall in Hb.
  specialize (Hb _ E). cbn [snd] in Hb. apply nodupN_NoDup in Hb.
  apply (NoDup_map_inj _ _ Hb); apply in_inj_domain; assumption.
Qed.

Lemma L_unknown_variant_identity : forall v text, ~ In v (map fst math_variants) -> plane1 (Some v) text = text.
Proof. intros v text H. unfold plane1. rewrite (lookupS_notin _ _ H). reflexivity. Qed.

Lemma L_no_variant_identity : forall text, plane1 None text = text.
Proof. reflexivity. Qed.

Lemma L_mapped_variants_are_the_unicode_styles : forall s,
  (exists s', In s' ucd_styles /\ str_eqb s s' = true) <-> (exists s', In s' (map fst math_variants) /\ str_eqb s s' = true).
Proof.
  pose proof names_ok as Hb. unfold names_b in Hb. apply andb_true_iff in Hb. destruct Hb as [Ha Hc].
  rewrite forallb_forall in Ha, Hc. intro s. split; intros [s' [Hin He]]; apply str_eqb_eq in He; subst s'.
  - specialize (Ha _ Hin). apply existsb_exists in Ha. destruct Ha as [x [Hx Hx2]]. exists x. split; assumption.
  - specialize (Hc _ Hin). apply existsb_exists in Hc. destruct Hc as [x [Hx Hx2]]. exists x. split; assumption.
Qed.

Lemma L_tables_in_range : (forall c off tbl, In (c, (off, tbl)) shift_amounts -> tbl < 3) /\ digamma_idx < 3.
Proof.
  pose proof tables_in_range_ok as Hb. unfold tables_in_range_b in Hb. apply andb_true_iff in Hb. destruct Hb as [Ha Hc].
  split; [|apply N.ltb_lt; exact Hc]. intros c off tbl Hin. rewrite forallb_forall in Ha. specialize (Ha _ Hin).
  cbn [snd] in Ha. apply N.ltb_lt. exact Ha.
Qed.

(* non-vacuity: the quantified sets are what one expects *)
Example ucd_map_nonempty : Nat.ltb 1000 (List.length ucd_map) = true. Proof. vm_compute. reflexivity. Qed.
Example script_B_is_hole : plane1_char (S "script") 66 = 0x212C. Proof. vm_compute. reflexivity. Qed.
Example domain_sizes : List.length table_domain = 122%nat /\ List.length ucd_domain = 122%nat.
Proof. vm_compute. split; reflexivity. Qed.
