(* C06 obligations over the GENERATED clean-up steps (Gen/BrailleSteps.v): discharged by evaluation. *)
From MC Require Import Lib.Base Model.BrailleClean Gen.BrailleSteps Proofs.BrailleCleanP.
Local Open Scope N_scope.

Definition keep_digits (d : list N) (c : N) : bool := memN c d.
Definition keep_text (c : N) : bool := negb (memN c text_blanks).

Lemma nemeth_chain_ok : forallb (step_okb (keep_digits nemeth_digits)) nemeth_steps = true.
Proof. vm_compute. reflexivity. Qed.
Lemma latex_chain_ok : forallb (step_okb keep_text) latex_steps = true.
Proof. vm_compute. reflexivity. Qed.
Lemma asciimath_chain_ok : forallb (step_okb keep_text) asciimath_steps = true.
Proof. vm_compute. reflexivity. Qed.

Lemma finals_ok :
  step_okb (keep_digits nemeth_digits) nemeth_final && step_okb (keep_digits ueb_digits) ueb_final &&
  step_okb (keep_digits cmu_digits) cmu_final && step_okb (keep_digits vietnam_digits) vietnam_final &&
  step_okb (keep_digits swedish_digits) swedish_final = true.
Proof. vm_compute. reflexivity. Qed.

Lemma L_nemeth_keeps_digits : forall raw out, chain_rel nemeth_steps raw out ->
  proj (keep_digits nemeth_digits) out = proj (keep_digits nemeth_digits) raw.
Proof. intros. eapply chain_keeps; eauto. exact nemeth_chain_ok. Qed.
Lemma L_latex_keeps_text : forall raw out, chain_rel latex_steps raw out -> proj keep_text out = proj keep_text raw.
Proof. intros. eapply chain_keeps; eauto. exact latex_chain_ok. Qed.
Lemma L_asciimath_keeps_text : forall raw out, chain_rel asciimath_steps raw out -> proj keep_text out = proj keep_text raw.
Proof. intros. eapply chain_keeps; eauto. exact asciimath_chain_ok. Qed.

Lemma L_final_keeps_digits : forall code_final digits raw out, step_okb (keep_digits digits) code_final = true ->
  step_rel code_final raw out -> proj (keep_digits digits) out = proj (keep_digits digits) raw.
Proof. intros. eapply step_keeps; eauto. Qed.

(* a run of kept characters that contains no blank survives verbatim in the text codes: the projection of a string
   without blanks is the string itself *)
Lemma L_proj_id : forall s, forallb keep_text s = true -> proj keep_text s = s.
Proof.
  induction s as [|c s IH]; intro H; [reflexivity|]. cbn [forallb] in H. apply andb_true_iff in H. destruct H as [H1 H2].
  unfold proj. cbn [filter]. rewrite H1. f_equal. apply IH. exact H2.
Qed.
