(* the validation model (Model/Assure.v): whatever is accepted has, in every part that is kept, the arities, the pairing
   of scripts, the token shape and the element names that canonical MathML asks for *)
From MC Require Import Lib.Base Gen.AssureSets Model.Assure.
From Coq Require Import String.
Local Open Scope string_scope.
Local Open Scope list_scope.
Local Open Scope N_scope.

Definition pick_spec (first : node) (kids : list node) : bool :=
  match find has_enc kids with
  | Some k => match kids_of k with [c] => assure c | _ => false end
  | None => assure first
  end.

Lemma pick_eq : forall first l,
  (fix pick (l : list node) : bool :=
     match l with
     | [] => assure first
     | El _ true [c] :: _ => assure c
     | El _ true _ :: _ => false
     | _ :: r => pick r
     end) l = pick_spec first l.
Proof.
  intros first l. unfold pick_spec. induction l as [|k l IH]; [reflexivity|].
  cbn [find]. destruct k as [|g' [|] ks]; cbn [has_enc kids_of]; [exact IH| |exact IH].
  destruct ks as [|c [|c' ks]]; reflexivity.
Qed.

Lemma assure_eq : forall g e kids, assure (El g e kids) =
  if in_names g leaf_nodes then token_ok g kids
  else if negb (local_ok g kids) then false
  else if str_eqb g s_semantics then
    match kids with
    | [] => true
    | first :: _ => forallb annotation_ok kids && others_ok 0 (presentation_index kids) kids && pick_spec first kids
    end
  else if negb (in_names g all_mathml_elements) then false
  else forallb assure kids.
Proof.
  intros g e kids. cbn [assure].
  destruct (in_names g leaf_nodes); [reflexivity|].
  destruct (negb (local_ok g kids)); [reflexivity|].
  destruct (str_eqb g s_semantics).
  - destruct kids as [|first rest]; [reflexivity|]. f_equal.
    rewrite <- (pick_eq first (first :: rest)). reflexivity.
  - destruct (negb (in_names g all_mathml_elements)); [reflexivity|].
    induction kids as [|k l IH]; [reflexivity|]. cbn [forallb]. rewrite <- IH. reflexivity.
Qed.

Lemma semantics_not_token : in_names s_semantics leaf_nodes = false.
Proof. vm_compute. reflexivity. Qed.

(* every kept node passed the validation itself *)
Theorem L_kept_is_validated : forall t x, kept t x -> assure t = true -> assure x = true.
Proof.
  intros t x K. induction K as [t|g e kids k x Hl Hs Hin K IH|e kids p x Hp K IH]; intro H; [exact H| |].
  - apply IH. rewrite assure_eq, Hl, Hs in H.
    destruct (negb (local_ok g kids)); [discriminate|]. destruct (negb (in_names g all_mathml_elements)); [discriminate|].
    rewrite forallb_forall in H. apply H. exact Hin.
  - apply IH. rewrite assure_eq, semantics_not_token, str_eqb_refl in H.
    destruct (negb (local_ok s_semantics kids)); [discriminate|].
    unfold presentation_of in Hp. destruct kids as [|first rest]; [discriminate|].
    apply andb_true_iff in H. destruct H as [_ H]. unfold pick_spec in H.
    destruct (find has_enc (first :: rest)) as [k|].
    + destruct (kids_of k) as [|c [|c' ks]]; try discriminate. inversion Hp; subst. exact H.
    + inversion Hp; subst. exact H.
Qed.

(* ---- what the validation says about one accepted element ---- *)
Lemma fixed_not_token : forall g, in_names g fixed_children = true -> in_names g leaf_nodes = false.
Proof.
  assert (H : forallb (fun g => negb (in_names g leaf_nodes)) fixed_children = true) by (vm_compute; reflexivity).
  intros g Hg. unfold in_names in Hg. apply existsb_exists in Hg. destruct Hg as [g' [Hin He]]. apply str_eqb_eq in He. subst g'.
  rewrite forallb_forall in H. apply negb_true_iff. apply H. exact Hin.
Qed.

Lemma multiscripts_not_token : in_names s_mmultiscripts leaf_nodes = false.
Proof. vm_compute. reflexivity. Qed.

Lemma accepted_local : forall g e kids, assure (El g e kids) = true -> in_names g leaf_nodes = false -> local_ok g kids = true.
Proof.
  intros g e kids H Hl. rewrite assure_eq, Hl in H. destruct (local_ok g kids); [reflexivity|discriminate].
Qed.

Theorem L_fixed_arity : forall g e kids, assure (El g e kids) = true -> in_names g fixed_children = true ->
  List.length kids = fixed_count g.
Proof.
  intros g e kids H Hf. pose proof (accepted_local g e kids H (fixed_not_token g Hf)) as L.
  unfold local_ok in L. rewrite Hf in L. apply andb_true_iff in L. destruct L as [_ L]. apply Nat.eqb_eq. exact L.
Qed.

Theorem L_token_shape : forall g e kids, assure (El g e kids) = true -> in_names g leaf_nodes = true ->
  (if in_names g empty_elements then kids = [] else kids = [] \/ kids = [Tx]) /\ g <> s_annotation.
Proof.
  intros g e kids H Hl. rewrite assure_eq, Hl in H. unfold token_ok in H. split.
  - destruct (in_names g empty_elements).
    + destruct kids; [reflexivity|discriminate].
    + destruct (str_eqb g s_annotation); [discriminate|]. destruct kids as [|[|] [|]]; try discriminate; auto.
  - intro E. subst g. revert H. vm_compute. discriminate.
Qed.

Theorem L_known_name : forall g e kids, assure (El g e kids) = true ->
  in_names g leaf_nodes = true \/ g = s_semantics \/ in_names g all_mathml_elements = true.
Proof.
  intros g e kids H. rewrite assure_eq in H. destruct (in_names g leaf_nodes); [left; reflexivity|right].
  destruct (negb (local_ok g kids)); [discriminate|]. destruct (str_eqb g s_semantics) eqn:E; [left; apply str_eqb_eq; exact E|right].
  destruct (in_names g all_mathml_elements); [reflexivity|discriminate].
Qed.

(* ---- mmultiscripts: a base, pairs, and at most one mprescripts followed by pairs ---- *)
Definition no_pre (l : list node) : Prop := forallb (fun k => negb (is_pre k)) l = true.

Inductive paired : list node -> Prop :=
| paired_plain : forall base scripts, is_pre base = false -> no_pre scripts -> Nat.even (List.length scripts) = true ->
    paired (base :: scripts)
| paired_pre : forall base post p pre, is_pre base = false -> no_pre post -> is_pre p = true -> no_pre pre ->
    Nat.even (List.length post) = true -> Nat.even (List.length pre) = true -> paired (base :: post ++ p :: pre).

Lemma pre_positions_nil : forall kids i, pre_positions i kids = [] -> no_pre kids.
Proof.
  induction kids as [|k r IH]; intros i H; [reflexivity|]. cbn [pre_positions] in H. unfold no_pre. cbn [forallb].
  destruct (is_pre k); [discriminate|]. cbn [negb andb]. exact (IH _ H).
Qed.

Lemma pre_positions_ge : forall kids i j, In j (pre_positions i kids) -> (i <= j)%nat.
Proof.
  induction kids as [|k r IH]; intros i j H; [destruct H|]. cbn [pre_positions] in H. destruct (is_pre k).
  - destruct H as [H|H]; [lia|]. apply IH in H. lia.
  - apply IH in H. lia.
Qed.

Lemma pre_positions_one : forall kids i j, pre_positions i kids = [j] ->
  exists a p b, kids = a ++ p :: b /\ no_pre a /\ is_pre p = true /\ no_pre b /\ j = (i + List.length a)%nat.
Proof.
  induction kids as [|k r IH]; intros i j H; [discriminate|]. cbn [pre_positions] in H. destruct (is_pre k) eqn:E.
  - inversion H as [[Hj Hr]]. exists [], k, r. cbn [app List.length]. repeat split; [exact E|exact (pre_positions_nil _ _ Hr)|lia].
  - destruct (IH _ _ H) as [a [p [b [Hk [Ha [Hp [Hb Hj]]]]]]]. exists (k :: a), p, b. subst r. cbn [app List.length].
    repeat split; [unfold no_pre; cbn [forallb]; rewrite E; exact Ha|exact Hp|exact Hb|lia].
Qed.

Lemma odd_even_pred : forall n, Nat.odd (Datatypes.S n) = Nat.even n.
Proof. intro n. rewrite Nat.odd_succ. reflexivity. Qed.

Theorem L_multiscripts_paired : forall kids, multiscripts_ok kids = true -> paired kids.
Proof.
  intros kids H. unfold multiscripts_ok in H. destruct (pre_positions 0 kids) as [|j [|j' l]] eqn:E; [| |discriminate].
  - pose proof (pre_positions_nil _ _ E) as Hn. destruct kids as [|base scripts]; [discriminate|].
    unfold no_pre in Hn. cbn [forallb] in Hn. apply andb_true_iff in Hn. destruct Hn as [Hb Hs].
    apply paired_plain; [apply negb_true_iff; exact Hb|exact Hs|]. cbn [List.length] in H. rewrite odd_even_pred in H. exact H.
  - destruct (pre_positions_one _ _ _ E) as [a [p [b [Hk [Ha [Hp [Hb Hj]]]]]]]. cbn [Nat.add] in Hj. subst j kids.
    apply andb_true_iff in H. destruct H as [H H3]. apply andb_true_iff in H. destruct H as [H1 H2]. apply Nat.leb_le in H1.
    destruct a as [|base post]; [cbn in H1; lia|]. unfold no_pre in Ha. cbn [forallb] in Ha. apply andb_true_iff in Ha. destruct Ha as [Hbase Hpost].
    cbn [app]. apply paired_pre; [apply negb_true_iff; exact Hbase|exact Hpost|exact Hp|exact Hb| |].
    + cbn [List.length] in H2. replace (Datatypes.S (List.length post) - 1)%nat with (List.length post) in H2 by lia. exact H2.
    + rewrite app_length in H3. cbn [List.length] in H3.
      replace (Datatypes.S (List.length post) + Datatypes.S (List.length b) - Datatypes.S (List.length post) - 1)%nat with (List.length b) in H3 by lia. exact H3.
Qed.

Theorem L_accepted_multiscripts : forall e kids, assure (El s_mmultiscripts e kids) = true -> paired kids.
Proof.
  intros e kids H. pose proof (accepted_local _ _ _ H multiscripts_not_token) as L. unfold local_ok in L.
  rewrite str_eqb_refl in L. apply andb_true_iff in L. destruct L as [L _]. apply L_multiscripts_paired. exact L.
Qed.

(* ---- the statements of Props/C02.v: every kept element of an accepted tree ---- *)
Theorem L_validated_arities : forall t g e kids, assure t = true -> kept t (El g e kids) ->
  (in_names g fixed_children = true -> List.length kids = fixed_count g) /\
  (g = s_mmultiscripts -> paired kids) /\
  (in_names g leaf_nodes = true -> (if in_names g empty_elements then kids = [] else kids = [] \/ kids = [Tx]) /\ g <> s_annotation) /\
  (in_names g leaf_nodes = true \/ g = s_semantics \/ in_names g all_mathml_elements = true).
Proof.
  intros t g e kids H K. pose proof (L_kept_is_validated _ _ K H) as A. repeat split.
  - intro Hf. exact (L_fixed_arity _ _ _ A Hf).
  - intro Hg. subst g. exact (L_accepted_multiscripts _ _ A).
  - exact (proj1 (L_token_shape _ _ _ A H0)).
  - exact (proj2 (L_token_shape _ _ _ A H0)).
  - exact (L_known_name _ _ _ A).
Qed.

(* a second mprescripts is refused wherever it stands *)
Theorem L_two_prescripts_refused : forall e a p b q c, is_pre p = true -> is_pre q = true ->
  assure (El s_mmultiscripts e (a ++ p :: b ++ q :: c)) = false.
Proof.
  intros e a p b q c Hp Hq. destruct (assure _) eqn:H; [|reflexivity]. exfalso.
  pose proof (L_accepted_multiscripts _ _ H) as P.
  assert (Hcount : forall l, no_pre l -> forall x, In x l -> is_pre x = false).
  { intros l Hl x Hx. unfold no_pre in Hl. rewrite forallb_forall in Hl. apply negb_true_iff. apply Hl. exact Hx. }
  assert (Hin_p : In p (a ++ p :: b ++ q :: c)) by (apply in_or_app; right; left; reflexivity).
  assert (Hin_q : In q (a ++ p :: b ++ q :: c)) by (apply in_or_app; right; right; apply in_or_app; right; left; reflexivity).
  inversion P as [base scripts Hb Hs He Heq|base post p' pre Hb Hpost Hp' Hpre He1 He2 Heq].
  - rewrite <- Heq in Hin_p. destruct Hin_p as [E|E]; [subst; congruence|]. rewrite (Hcount _ Hs _ E) in Hp. discriminate.
  - (* count the mprescripts on both sides *)
    assert (Hc : forall l, List.length (filter is_pre l) = List.length (filter is_pre l)) by reflexivity.
    assert (Hf : List.length (filter is_pre (base :: post ++ p' :: pre)) = 1%nat).
    { cbn [filter]. rewrite Hb. rewrite filter_app. cbn [filter]. rewrite Hp'.
      assert (Hz : forall l, no_pre l -> filter is_pre l = []).
      { induction l as [|x l IH]; intro Hl; [reflexivity|]. unfold no_pre in Hl. cbn [forallb] in Hl. apply andb_true_iff in Hl. destruct Hl as [Hx Hl].
        cbn [filter]. apply negb_true_iff in Hx. rewrite Hx. apply IH. exact Hl. }
      rewrite (Hz _ Hpost), (Hz _ Hpre). reflexivity. }
    rewrite Heq in Hf. rewrite filter_app in Hf. cbn [filter] in Hf. rewrite Hp in Hf. rewrite filter_app in Hf. cbn [filter] in Hf. rewrite Hq in Hf.
    rewrite app_length in Hf. cbn [List.length] in Hf. rewrite app_length in Hf. cbn [List.length] in Hf. lia.
Qed.

(* non-vacuity: an isotope with charge and count is accepted and its parts are kept *)
Example accepted_example :
  let t := El (S "math") false [El (S "mmultiscripts") false [El (S "mi") false [Tx]; El (S "mn") false [Tx]; El (S "none") false [];
                                   El (S "mprescripts") false []; El (S "mn") false [Tx]; El (S "mn") false [Tx]]] in
  assure t = true /\ kept t (El (S "mn") false [Tx]).
Proof.
  cbn zeta. split; [vm_compute; reflexivity|].
  eapply kept_child; [vm_compute; reflexivity|vm_compute; reflexivity|left; reflexivity|].
  eapply kept_child; [vm_compute; reflexivity|vm_compute; reflexivity|right; left; reflexivity|apply kept_here].
Qed.
