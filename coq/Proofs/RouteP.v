From MC Require Import Lib.Base Model.Route.
Local Open Scope N_scope.

Lemma ids_go ks : (fix go (l : list rtree) : list N := match l with [] => [] | k :: r => ids k ++ go r end) ks = flat_map ids ks.
Proof. induction ks as [|k ks IH]; [reflexivity|]. cbn [flat_map]. rewrite IH. reflexivity. Qed.

Lemma ids_unfold i l s e x ks : ids (RT i l s e x ks) = i :: flat_map ids ks.
Proof. cbn [ids]. rewrite ids_go. reflexivity. Qed.

Lemma ids_self t : In (r_id t) (ids t).
Proof. destruct t. rewrite ids_unfold. left. reflexivity. Qed.

Lemma ids_kid t k x : In k (r_kids t) -> In x (ids k) -> In x (ids t).
Proof. destruct t as [i l s e y ks]. cbn [r_kids]. intros Hk Hx. rewrite ids_unfold. right. apply in_flat_map. exists k. split; assumption. Qed.

(* what a probe answers: a node of the tree below the probed node -- or the probed node itself *)
Definition below (t n : rtree) : Prop := forall x, In x (ids n) -> In x (ids t).

Lemma below_refl t : below t t.
Proof. intros x H. exact H. Qed.
Lemma below_kid t k n : In k (r_kids t) -> below k n -> below t n.
Proof. intros Hk Hb x Hx. apply (ids_kid t k x Hk). apply Hb. exact Hx. Qed.

Lemma nth_in_or_dummy (ks : list rtree) g : In (nth g ks dummy) ks \/ nth g ks dummy = dummy.
Proof. destruct (nth_in_or_default g ks dummy) as [H|H]; [left; exact H|right; exact H]. Qed.

(* the guesses stay inside the range of children *)
Lemma guess_ltr_range ks : forall n i pos target last,
  guess_ltr ks i n pos target last = last \/ (i <= guess_ltr ks i n pos target last < i + n)%nat.
Proof.
  induction n as [|n IH]; intros i pos target last; cbn [guess_ltr]; [left; reflexivity|].
  destruct (target <=? pos + r_est (nth i ks dummy)); [right; lia|].
  destruct (IH (Datatypes.S i) (pos + r_est (nth i ks dummy)) target last) as [H|H]; [left; exact H|right; lia].
Qed.

Lemma guess_rtl_range ks il : forall n pos target g, guess_rtl ks il n pos target = Some g ->
  g = il \/ (il <= g < il + n)%nat.
Proof.
  induction n as [|n IH]; intros pos target g H; cbn [guess_rtl] in H; [inversion H; left; reflexivity|].
  destruct (pos <? r_est (nth (il + n) ks dummy)); [discriminate|].
  destruct (pos - r_est (nth (il + n) ks dummy) <=? target); [inversion H; subst; right; lia|].
  destruct (IH _ _ _ H) as [E|E]; [left; exact E|right; lia].
Qed.

(* what an answer says about the target *)
Definition sound (blen target : N) (a : answer) : Prop :=
  match a_status a with
  | Found => r_st (a_node a) <= target <= r_en (a_node a)
  | LookLeft => target < r_st (a_node a)
  | LookRight => r_en (a_node a) < target \/ (r_st (a_node a) = 0 /\ r_en (a_node a) = blen)
  | LookInParent => False
  end.

Lemma loop_ok probe node kids blen target :
  r_kids node = kids -> r_st node <= target <= r_en node ->
  (forall k a, In k kids -> probe k = Some a -> below k (a_node a) /\ sound blen target a) ->
  forall n il ir cs ltr a, (ir <= List.length kids)%nat ->
  loop probe node kids target n il ir cs ltr = Some a -> below node (a_node a) /\ sound blen target a.
Proof.
  intros Hk Hin Hp. induction n as [|n IH]; intros il ir cs ltr a Hir H; cbn [loop] in H.
  - inversion H; subst. split; [apply below_refl|exact Hin].
  - destruct (Nat.leb ir il) eqn:El; [inversion H; subst; split; [apply below_refl|exact Hin]|].
    apply Nat.leb_gt in El.
    destruct (if ltr then Some (guess_ltr kids il (ir - il) cs target (ir - 1)%nat) else guess_rtl kids il (ir - il) cs target) as [g|] eqn:Eg; [|discriminate].
    assert (Hg : (il <= g < ir)%nat).
    { destruct ltr.
      - inversion Eg; subst g. destruct (guess_ltr_range kids (ir - il) il cs target (ir - 1)%nat) as [E|E]; lia.
      - destruct (guess_rtl_range kids il _ _ _ _ Eg) as [E|E]; lia. }
    assert (Hi : In (nth g kids dummy) kids) by (apply nth_In; lia).
    destruct (probe (nth g kids dummy)) as [b|] eqn:Eb; [|discriminate].
    destruct (Hp _ _ Hi Eb) as [B S].
    destruct (a_status b) eqn:Es.
    + inversion H; subst. split; [apply below_refl|exact Hin].
    + destruct (r_st (a_node b) =? 0); [discriminate|].
      assert (Hle : ((if Nat.eqb g 0 then O else (g - 1)%nat) <= List.length kids)%nat) by (destruct (Nat.eqb g 0); lia).
      apply (IH _ _ _ _ _ Hle H).
    + apply (IH _ _ _ _ _ Hir H).
    + inversion H; subst a. split; [|exact S]. apply (below_kid node (nth g kids dummy)); [rewrite Hk; exact Hi|exact B].
Qed.

Theorem L_find_sound : forall fuel blen t target a, find fuel blen t target = Some a ->
  below t (a_node a) /\ sound blen target a.
Proof.
  induction fuel as [|f IH]; intros blen t target a H; [discriminate|].
  destruct t as [id leaf st en est kids]. cbn [find] in H.
  destruct (leaf && (st =? 0) && (en =? blen)) eqn:E0.
  { inversion H; subst a. split; [apply below_refl|]. unfold sound. cbn.
    apply andb_true_iff in E0. destruct E0 as [E0 E2]. apply andb_true_iff in E0. destruct E0 as [_ E1].
    apply N.eqb_eq in E1. apply N.eqb_eq in E2. right. split; assumption. }
  destruct (target <? st) eqn:E1.
  { inversion H; subst a. split; [apply below_refl|]. unfold sound. cbn. apply N.ltb_lt. exact E1. }
  destruct (en <? target) eqn:E2.
  { inversion H; subst a. split; [apply below_refl|]. unfold sound. cbn. left. apply N.ltb_lt. exact E2. }
  apply N.ltb_ge in E1. apply N.ltb_ge in E2.
  destruct leaf.
  { inversion H; subst a. split; [apply below_refl|]. unfold sound. cbn. lia. }
  apply (loop_ok (fun k => find f blen k target) (RT id false st en est kids) kids blen target eq_refl) with (n := Datatypes.S (List.length kids)) (il := O) (ir := List.length kids) (cs := st) (ltr := true).
  - cbn. lia.
  - intros k b _ Hb. apply (IH _ _ _ _ Hb).
  - lia.
  - exact H.
Qed.

(* routing hands out an id of the expression, and an offset inside the cells of the node it names *)
Theorem L_route_sound : forall fuel blen mid top target i off, route fuel blen mid top target = Some (i, off) ->
  (i = mid /\ off = 0) \/
  (exists n, below top n /\ i = r_id n /\ r_st n + off = target /\ target <= r_en n).
Proof.
  intros fuel blen mid top target i off H. unfold route in H.
  destruct (find fuel blen top target) as [a|] eqn:E; [|discriminate].
  destruct (L_find_sound _ _ _ _ _ E) as [B S]. unfold sound in S.
  destruct (a_status a).
  - destruct S.
  - inversion H; subst. left. split; reflexivity.
  - inversion H; subst. left. split; reflexivity.
  - destruct (target <? r_st (a_node a)) eqn:El; [discriminate|]. inversion H; subst. right.
    exists (a_node a). split; [exact B|]. split; [reflexivity|]. lia.
Qed.

Theorem L_route_id_in_expression : forall fuel blen mid top target i off, route fuel blen mid top target = Some (i, off) ->
  i = mid \/ In i (ids top).
Proof.
  intros fuel blen mid top target i off H. destruct (L_route_sound _ _ _ _ _ _ _ H) as [[E _]|[n [B [E _]]]]; [left; exact E|].
  right. subst i. apply B. apply ids_self.
Qed.
