(* C09: proofs about id assignment, for every tree. *)
From MC Require Import Lib.Base Lib.Tree Gen.ElemSets Model.Ids.
Local Open Scope N_scope.

Lemma idv_eqb_eq : forall a b, idv_eqb a b = true <-> a = b.
Proof.
  intros [x|x] [y|y]; cbn [idv_eqb]; split; intro H; try discriminate; try (inversion H; subst).
  - apply str_eqb_eq in H. subst. reflexivity.
  - apply str_eqb_refl.
  - apply N.eqb_eq in H. subst. reflexivity.
  - apply N.eqb_refl.
Qed.
Lemma mem_id_In : forall x l, mem_id x l = true <-> In x l.
Proof.
  intros x l. unfold mem_id. rewrite existsb_exists. split.
  - intros [y [Hy He]]. apply idv_eqb_eq in He. subst. exact Hy.
  - intro H. exists x. split; [exact H | apply idv_eqb_eq; reflexivity].
Qed.

(* generated ids in use are below the counter *)
Definition good (c : N) (s : list idv) : Prop := forall k, In (Gen k) s -> k < c.

Definition spec (r : list idv * N * list idv) (count : N) (seen : list idv) : Prop :=
  match r with (l, c', s') =>
    s' = rev l ++ seen /\ count <= c' /\ NoDup l /\ (forall x, In x l -> ~ In x seen) /\ good c' s'
  end.

Lemma node_id_spec : forall t count seen i c1, good count seen -> node_id t count seen = (i, c1) ->
  ~ In i seen /\ count <= c1 /\ good c1 (i :: seen).
Proof.
  intros t count seen i c1 Hg. unfold node_id.
  assert (Hgen : ~ In (Gen count) seen /\ count <= count + 1 /\ good (count + 1) (Gen count :: seen)).
  { split; [intro Hin; specialize (Hg _ Hin); lia|]. split; [lia|].
    intros k [Hk|Hk]; [inversion Hk; lia | specialize (Hg _ Hk); lia]. }
  destruct (attr_get s_id (attrs_of t)) as [a|].
  - destruct (mem_id (Auth a) seen) eqn:E; intro H; inversion H; subst; [exact Hgen|].
    split; [intro Hin; apply mem_id_In in Hin; congruence|]. split; [lia|].
    intros k [Hk|Hk]; [discriminate | exact (Hg _ Hk)].
  - intro H; inversion H; subst. exact Hgen.
Qed.

Lemma add_ids_unfold : forall t count seen,
  add_ids t count seen =
  let (i, c1) := node_id t count seen in
  if is_leaf t then ([i], c1, i :: seen)
  else let '(l, c2, s2) := add_ids_list (kids_of t) c1 (i :: seen) in (i :: l, c2, s2).
Proof. intros [g a k x] count seen. reflexivity. Qed.

Lemma add_ids_list_cons : forall k r c s,
  add_ids_list (k :: r) c s =
  let '(l1, c', s') := add_ids k c s in let '(l2, c'', s'') := add_ids_list r c' s' in (l1 ++ l2, c'', s'').
Proof. reflexivity. Qed.

Lemma list_spec : forall ks, Forall (fun t => forall count seen, good count seen -> spec (add_ids t count seen) count seen) ks ->
  forall count seen, good count seen -> spec (add_ids_list ks count seen) count seen.
Proof.
  induction ks as [|k r IH]; intros HF count seen Hg.
  - cbn. split; [reflexivity|]. split; [lia|]. split; [constructor|]. split; [intros x []|exact Hg].
  - inversion HF as [|k' r' Hk Hr]; subst. rewrite add_ids_list_cons.
    specialize (Hk count seen Hg). destruct (add_ids k count seen) as [[l1 c'] s'].
    destruct Hk as [E1 [L1 [N1 [D1 G1]]]].
    specialize (IH Hr c' s' G1). destruct (add_ids_list r c' s') as [[l2 c''] s''].
    destruct IH as [E2 [L2 [N2 [D2 G2]]]]. cbn [spec].
    split; [rewrite E2, E1, rev_app_distr, app_assoc; reflexivity|]. split; [lia|]. split.
    + apply NoDup_app_disjoint; [exact N1 | exact N2|].
      intros x Hx1 Hx2. apply (D2 x Hx2). rewrite E1. apply in_or_app. left. apply in_rev in Hx1. exact Hx1.
    + split; [|exact G2]. intros x Hx Hs. apply in_app_or in Hx. destruct Hx as [Hx|Hx]; [exact (D1 x Hx Hs)|].
      apply (D2 x Hx). rewrite E1. apply in_or_app. right. exact Hs.
Qed.

Lemma tree_spec : forall t count seen, good count seen -> spec (add_ids t count seen) count seen.
Proof.
  intro t. induction t as [g a k x IH] using tree_ind'. intros count seen Hg.
  rewrite add_ids_unfold. destruct (node_id (T g a k x) count seen) as [i c1] eqn:En.
  destruct (node_id_spec _ _ _ _ _ Hg En) as [Hni [Hc Hg1]].
  destruct (is_leaf (T g a k x)).
  - cbn [spec rev app]. split; [reflexivity|]. split; [exact Hc|]. split; [constructor; [intros []|constructor]|].
    split; [|exact Hg1]. intros y [Hy|[]]. subst. exact Hni.
  - cbn [kids_of]. pose proof (list_spec k IH c1 (i :: seen) Hg1) as Hl.
    destruct (add_ids_list k c1 (i :: seen)) as [[l c2] s2]. destruct Hl as [E [L [N [D G]]]]. cbn [spec].
    split; [rewrite E; cbn [rev]; rewrite <- app_assoc; reflexivity|]. split; [lia|]. split.
    + constructor; [|exact N]. intro Hin. exact (D i Hin (or_introl eq_refl)).
    + split; [|exact G]. intros y [Hy|Hy] Hs; [subst; exact (Hni Hs) | exact (D y Hy (or_intror Hs))].
Qed.

(* all ids of the returned tree are distinct -- for EVERY tree, author ids absent, partial, complete or duplicated *)
Lemma L_ids_unique : forall t, NoDup (ids_of t).
Proof.
  intro t. unfold ids_of. pose proof (tree_spec t 0 [] ltac:(intros k [])) as H.
  destruct (add_ids t 0 []) as [[l c] s]. cbn [fst]. destruct H as [_ [_ [H _]]]. exact H.
Qed.

(* every visited element gets exactly one id *)
Lemma add_ids_len : forall t count seen, List.length (fst (fst (add_ids t count seen))) = visited t.
Proof.
  intro t. induction t as [g a k x IH] using tree_ind'. intros count seen.
  rewrite add_ids_unfold. destruct (node_id (T g a k x) count seen) as [i c1].
  cbn [visited]. destruct (is_leaf (T g a k x)); [reflexivity|]. cbn [kids_of].
  assert (Hl : forall c s, List.length (fst (fst (add_ids_list k c s))) =
               (fix go (ks : list tree) := match ks with [] => 0%nat | k :: r => (visited k + go r)%nat end) k).
  { induction IH as [|k0 r Hk Hr IHr]; intros c s; [reflexivity|]. rewrite add_ids_list_cons.
    specialize (Hk c s). destruct (add_ids k0 c s) as [[l1 c'] s']. cbn [fst] in Hk.
    specialize (IHr c' s'). destruct (add_ids_list r c' s') as [[l2 c''] s'']. cbn [fst] in *.
    rewrite app_length, Hk, IHr. reflexivity. }
  specialize (Hl c1 (i :: seen)). destruct (add_ids_list k c1 (i :: seen)) as [[l c2] s2]. cbn [fst] in *.
  cbn [List.length]. rewrite Hl. reflexivity.
Qed.
Lemma L_every_element_has_id : forall t, List.length (ids_of t) = visited t.
Proof. intro t. unfold ids_of. apply add_ids_len. Qed.

(* an author id is kept on its element unless an earlier element already used it *)
Lemma L_author_id_kept : forall t count seen a, attr_get s_id (attrs_of t) = Some a -> ~ In (Auth a) seen ->
  hd (Gen 0) (fst (fst (add_ids t count seen))) = Auth a.
Proof.
  intros t count seen a Ha Hn. rewrite add_ids_unfold. unfold node_id. rewrite Ha.
  destruct (mem_id (Auth a) seen) eqn:E; [apply mem_id_In in E; contradiction|].
  destruct (is_leaf t); [reflexivity|]. destruct (add_ids_list (kids_of t) count (Auth a :: seen)) as [[l c2] s2]. reflexivity.
Qed.
