(* a key press never panics and always stands for a command the navigation knows (or the placeholder "Error"), for EVERY
   key code and modifier combination; the documented key table (Model/KeyMap.v) is what the code's table says *)
From MC Require Import Lib.Base Gen.KeyTab Model.KeyPress Model.KeyMap.
From Coq Require Import String.
Local Open Scope list_scope.
Local Open Scope N_scope.

Definition in_names (s : str) (l : list str) : bool := existsb (str_eqb s) l.

(* the keys some arm mentions *)
Definition enum (r : N * N) : list N := map (fun i => fst r + N.of_nat i) (seq 0 (N.to_nat (snd r + 1 - fst r))).
Definition arm_keys : list N := flat_map (fun a => flat_map enum (fst (fst a))) key_arms.

Lemma in_range_enum : forall k r, in_range k r = true -> In k (enum r).
Proof.
  intros k [lo hi] H. unfold in_range in H. cbn [fst snd] in H. apply andb_true_iff in H. destruct H as [H1 H2].
  apply N.leb_le in H1. apply N.leb_le in H2. unfold enum. cbn [fst snd]. apply in_map_iff.
  exists (N.to_nat (k - lo)). split; [lia|]. apply in_seq. lia.
Qed.

Lemma find_none_not_listed : forall k, ~ In k arm_keys -> find (arm_matches k) key_arms = None.
Proof.
  intros k H. unfold arm_keys in H. induction key_arms as [|a l IH]; [reflexivity|]. cbn [find].
  destruct (arm_matches k a) eqn:E.
  - exfalso. apply H. cbn [flat_map]. apply in_or_app. left. unfold arm_matches in E. apply existsb_exists in E.
    destruct E as [r [Hr Hk]]. apply in_flat_map. exists r. split; [exact Hr|apply in_range_enum; exact Hk].
  - apply IH. intro Hin. apply H. cbn [flat_map]. apply in_or_app. right. exact Hin.
Qed.

Definition bools := [false; true].
Definition ok_out (p : pressed) : bool :=
  match p with PErr => true | PPanic => false | PCommand s => str_eqb s final_string || in_names s nav_commands end.
Definition key_ok (k : N) : bool :=
  forallb (fun sh => forallb (fun ct => forallb (fun al => forallb (fun me => ok_out (press k sh ct al me)) bools) bools) bools) bools.

Lemma listed_keys_ok : forallb key_ok arm_keys = true.
Proof. vm_compute. reflexivity. Qed.

Lemma in_bools : forall b, In b bools.
Proof. intros [|]; cbn; auto. Qed.

Theorem L_press_ok : forall k sh ct al me, ok_out (press k sh ct al me) = true.
Proof.
  intros k sh ct al me. destruct (in_dec N.eq_dec k arm_keys) as [Hin|Hout].
  - pose proof listed_keys_ok as H. rewrite forallb_forall in H. specialize (H k Hin). unfold key_ok in H.
    rewrite forallb_forall in H. specialize (H sh (in_bools sh)). rewrite forallb_forall in H. specialize (H ct (in_bools ct)).
    rewrite forallb_forall in H. specialize (H al (in_bools al)). rewrite forallb_forall in H. exact (H me (in_bools me)).
  - unfold press, key_press. rewrite (find_none_not_listed k Hout).
    destruct ((if al && ct && memN k alt_control_keys then false else al) || me); reflexivity.
Qed.

Theorem L_press_never_panics : forall k sh ct al me, press k sh ct al me <> PPanic.
Proof. intros k sh ct al me E. pose proof (L_press_ok k sh ct al me) as H. rewrite E in H. discriminate. Qed.

Theorem L_press_names_a_command : forall k sh ct al me s, press k sh ct al me = PCommand s ->
  s = final_string \/ In s nav_commands.
Proof.
  intros k sh ct al me s E. pose proof (L_press_ok k sh ct al me) as H. rewrite E in H. cbn [ok_out] in H.
  apply orb_true_iff in H. destruct H as [H|H]; [left; apply str_eqb_eq; exact H|right].
  unfold in_names in H. apply existsb_exists in H. destruct H as [x [Hx He]]. apply str_eqb_eq in He. subst x. exact Hx.
Qed.

(* a key no arm mentions, or any key with Alt (but for the arrows with Control) or Meta, is refused *)
Theorem L_unlisted_key_is_refused : forall k sh ct al me, ~ In k arm_keys -> press k sh ct al me = PErr.
Proof.
  intros k sh ct al me H. unfold press, key_press. rewrite (find_none_not_listed k H).
  destruct ((if al && ct && memN k alt_control_keys then false else al) || me); reflexivity.
Qed.

Theorem L_meta_is_refused : forall k sh ct al, press k sh ct al true = PErr.
Proof. intros k sh ct al. unfold press, key_press. rewrite orb_true_r. reflexivity. Qed.

(* Alt is refused too, but for an arrow key pressed with Control as well *)
Theorem L_alt_is_refused : forall k sh ct me, ct && memN k alt_control_keys = false -> press k sh ct true me = PErr.
Proof.
  intros k sh ct me H. unfold press, key_press. cbn [andb]. rewrite H. reflexivity.
Qed.

Theorem L_alt_and_meta_are_refused : forall k sh ct al me,
  (al = true /\ ct && memN k alt_control_keys = false) \/ me = true -> press k sh ct al me = PErr.
Proof. intros k sh ct al me [[Ha Hc]|Hm]; subst; [apply L_alt_is_refused; exact Hc|apply L_meta_is_refused]. Qed.

(* every documented cell of the key table (docs/nav-commands.md, Model/KeyMap.v) is what the code's table gives *)
Definition cell_ok (c : N * bool * bool * str) : bool :=
  match c with (k, ct, sh, name) => match press k sh ct false false with PCommand s => str_eqb s name | _ => false end end.
Lemma documented_cells_ok : forallb cell_ok documented = true.
Proof. vm_compute. reflexivity. Qed.

Theorem L_documented_key_is_its_command : forall k ct sh name, In (k, ct, sh, name) documented ->
  press k sh ct false false = PCommand name.
Proof.
  intros k ct sh name H. pose proof documented_cells_ok as A. rewrite forallb_forall in A. specialize (A _ H). cbn [cell_ok] in A.
  destruct (press k sh ct false false) as [| |s]; try discriminate. apply str_eqb_eq in A. subst s. reflexivity.
Qed.

(* non-vacuity: some key is a command, some key is refused *)
Example press_examples : press 39 false false false false = PCommand (S "MoveNext"%string) /\ press 96 false false false false = PErr /\
                         press 53 false true false false = PCommand (S "SetPlacemarker5"%string).
Proof. vm_compute. auto. Qed.
