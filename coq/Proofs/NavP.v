(* C11: proofs about the navigation state machine, for every tree (id list), every command string, every
   behaviour of the navigation rules (oracle) and every history. *)
From MC Require Import Lib.Base Model.Nav.
From Coq Require Import String.
Local Close Scope string_scope.
Local Open Scope N_scope.

Definition lens (st : nstate) : Prop := List.length (ps st) = List.length (cs st).
Definition pos_ok (ids : list str) (p : pos) : Prop := in_ids (node p) ids = true.
Definition mark_ok (ids : list str) (p : pos) : Prop := str_eqb (node p) illegal = true \/ in_ids (node p) ids = true.
Definition Inv (ids : list str) (st : nstate) : Prop :=
  lens st /\ Forall (pos_ok ids) (ps st) /\ Forall (mark_ok ids) (marks st).
(* what is assumed of the rules: the node they name is a node of the expression, or the "not set" id *)
Definition out_ok (ids : list str) (r : rule_out) : Prop :=
  match r_node r with Some n => in_ids n ids = true \/ str_eqb n illegal = true | None => True end.

(* ---------------------------------------------------------------- stack primitives *)
Lemma lens_push : forall p c st, lens st -> lens (push p c st).
Proof. intros p c st H. unfold lens in *. cbn [push ps cs List.length]. rewrite H. reflexivity. Qed.
Lemma lens_pop : forall st, lens st -> lens (pop st).
Proof. intros st H. unfold lens in *. cbn [pop ps cs]. destruct (ps st), (cs st); cbn in *; congruence. Qed.
Lemma Forall_tl : forall {A} (P : A -> Prop) l, Forall P l -> Forall P (tl l).
Proof. intros A P l H. destruct l; [exact H | inversion H; assumption]. Qed.

Lemma drop_moves_inv : forall ids n st, Inv ids st -> Inv ids (fst (drop_moves n st)).
Proof.
  intros ids n. induction n as [|n IH]; intros st H; [exact H|]. cbn [drop_moves].
  destruct (cs st) as [|c t] eqn:E; [exact H|]. apply IH. destruct (is_move c); [|exact H].
  destruct H as [H1 [H2 H3]]. split; [apply lens_pop; exact H1|]. split; [apply Forall_tl; exact H2 | exact H3].
Qed.
Lemma drop_moves_marks : forall n st, marks (fst (drop_moves n st)) = marks st.
Proof.
  induction n as [|n IH]; intro st; [reflexivity|]. cbn [drop_moves]. destruct (cs st); [reflexivity|].
  rewrite IH. destruct (is_move s); reflexivity.
Qed.

Lemma pop_stack_inv : forall ids st k, Inv ids st -> Inv ids (fst (pop_stack st k)).
Proof.
  intros ids st k H. unfold pop_stack. destruct k; [exact H|].
  destruct (ps st) as [|p t] eqn:Ep; [exact H|]. destruct (cs st) as [|c t'] eqn:Ec; [exact H|].
  destruct H as [H1 [H2 H3]]. rewrite Ep in H2.
  assert (Hpop : Inv ids (pop st)).
  { split; [apply lens_pop; exact H1|]. split; [cbn [pop ps]; rewrite Ep; inversion H2; assumption | exact H3]. }
  pose proof (drop_moves_inv ids (Datatypes.S k) (pop st) Hpop) as Hd.
  destruct (drop_moves (Datatypes.S k) (pop st)) as [st' ok]. cbn [fst] in *.
  destruct Hd as [D1 [D2 D3]]. split; [apply lens_push; exact D1|]. split; [|exact D3].
  cbn [push ps]. constructor; [|exact D2]. inversion H2; assumption.
Qed.

Lemma cur_pop_stack : forall root st k, cur root (fst (pop_stack st k)) = cur root st.
Proof.
  intros root st k. unfold pop_stack. destruct k; [reflexivity|].
  destruct (ps st) as [|p t] eqn:Ep; [reflexivity|]. destruct (cs st) as [|c t']; [reflexivity|].
  destruct (drop_moves (Datatypes.S k) (pop st)) as [st' ok]. cbn [fst]. unfold cur. cbn [push ps]. rewrite Ep. reflexivity.
Qed.

Lemma set_nth_Forall : forall {A} (P : A -> Prop) i x l, Forall P l -> P x -> Forall P (set_nth i x l).
Proof.
  intros A P i x l. revert i. induction l as [|h t IH]; intros i Hl Hx; [destruct i; constructor|].
  inversion Hl; subst. destruct i; cbn [set_nth]; constructor; auto.
Qed.

(* ---------------------------------------------------------------- one rule application *)
Lemma update_state_inv : forall ids cmd r st st', Inv ids st -> out_ok ids r -> update_state cmd r st = Some st' -> Inv ids st'.
Proof.
  intros ids cmd r st st' [H1 [H2 H3]] Hr. unfold update_state.
  set (st1 := mkst (ps st) (cs st) (marks st) (r_mode r) (r_overview r)).
  assert (I1 : Inv ids st1) by (split; [exact H1 | split; [exact H2 | exact H3]]).
  set (np := match r_node r with Some n => mkpos n (r_off r) | None => default_pos end).
  assert (Hnp : str_eqb (node np) illegal = false -> pos_ok ids np).
  { intro Hi. unfold np, out_ok, pos_ok in *. destruct (r_node r) as [n|]; cbn [node] in *.
    - destruct Hr as [Hr|Hr]; [exact Hr | congruence].
    - rewrite str_eqb_refl in Hi. discriminate. }
  destruct (if is_move cmd && negb (pos_eqb np default_pos) then _ else Some st1) as [st2|] eqn:E2; [|discriminate].
  assert (I2 : Inv ids st2).
  { destruct (is_move cmd && negb (pos_eqb np default_pos)); [|inversion E2; subst; exact I1].
    destruct (ps st1) as [|top t]; [discriminate|]. inversion E2; subst st2.
    destruct (negb (str_eqb (node np) (node top)) && negb (str_eqb (node np) illegal)) eqn:Ec; [|exact I1].
    apply andb_true_iff in Ec. destruct Ec as [_ Ec]. apply negb_true_iff in Ec.
    destruct I1 as [A [B C]]. split; [apply lens_push; exact A|]. split; [|exact C].
    cbn [push ps]. constructor; [apply Hnp; exact Ec | exact B]. }
  intro H. inversion H; subst st'. destruct (starts_with s_SetPlacemarker cmd); [|exact I2].
  destruct (r_node r) as [n|] eqn:En; [|exact I2]. destruct (last_digit cmd) as [i|]; [|exact I2].
  destruct I2 as [A [B C]]. split; [exact A|]. split; [exact B|]. cbn [marks].
  apply set_nth_Forall; [exact C|]. unfold mark_ok. cbn [node]. unfold out_ok in Hr. rewrite En in Hr. tauto.
Qed.

Lemma finish_inv : forall ids st k, Inv ids st -> Inv ids (fst (finish st k)).
Proof.
  intros ids st k H. unfold finish. pose proof (pop_stack_inv ids st k H) as Hp.
  destruct (pop_stack st k) as [st' ok]. exact Hp.
Qed.

Lemma apply_rules_inv : forall ids root cmd k r st, Inv ids st -> out_ok ids r -> Inv ids (fst (apply_rules ids root cmd k r st)).
Proof.
  intros ids root cmd k r st H Hr. unfold apply_rules.
  destruct (negb (in_ids (node (cur root st)) ids)); [exact H|]. destruct (r_err r); [exact H|].
  destruct (update_state cmd r st) as [st3|] eqn:E; [|exact H].
  pose proof (update_state_inv ids cmd r st st3 H Hr E) as H3.
  destruct (in_ids _ ids && r_speak r).
  - destruct (r_speech_err r); [exact H3|]. destruct (r_speech_empty r); [exact H3|]. apply finish_inv. exact H3.
  - apply finish_inv. exact H3.
Qed.

Lemma nav_loop_inv : forall ids root cmd outs fuel k st, Inv ids st -> (forall j, out_ok ids (outs j)) ->
  Inv ids (fst (nav_loop ids root cmd outs k fuel st)).
Proof.
  intros ids root cmd outs fuel. induction fuel as [|fuel IH]; intros k st H Ho; [exact H|]. cbn [nav_loop].
  pose proof (apply_rules_inv ids root cmd k (outs k) st H (Ho k)) as Ha.
  destruct (apply_rules ids root cmd k (outs k) st) as [st' s]. cbn [fst] in Ha.
  destruct s; try exact Ha. apply IH; assumption.
Qed.

(* every command keeps the invariant, whatever the rules do within [out_ok] *)
Lemma L_nav_inv : forall ids root cmd outs st, in_ids root ids = true -> Inv ids st -> (forall j, out_ok ids (outs j)) ->
  Inv ids (fst (nav_command ids root cmd outs st)).
Proof.
  intros ids root cmd outs st Hroot H Ho. unfold nav_command. apply nav_loop_inv; [|exact Ho].
  assert (H0 : Inv ids (match ps st with [] => push (mkpos root 0) s_None st | _ => st end)).
  { destruct (ps st) eqn:E; [|exact H]. destruct H as [A [B C]]. split; [apply lens_push; exact A|]. split; [|exact C].
    cbn [push ps]. rewrite E. constructor; [exact Hroot | constructor]. }
  destruct (str_eqb cmd s_MoveLastLocation); [|exact H0].
  destruct H0 as [A [B C]]. split; [apply lens_pop; exact A|]. split; [apply Forall_tl; exact B | exact C].
Qed.

(* the current position can always be retrieved *)
Lemma L_position_retrievable : forall ids root st, in_ids root ids = true -> Inv ids st -> in_ids (node (cur root st)) ids = true.
Proof.
  intros ids root st Hroot [_ [H _]]. unfold cur. destruct (ps st) as [|p t]; [exact Hroot|]. inversion H; assumption.
Qed.

(* a new expression: position back on the whole expression, nothing refers to the old one *)
Lemma L_new_expression_resets : forall ids' root' st,
  Inv ids' (new_expression st) /\ cur root' (new_expression st) = mkpos root' 0.
Proof.
  intros ids' root' st. split; [|reflexivity]. split; [reflexivity|]. split; [constructor|].
  cbn [new_expression marks]. apply Forall_forall. intros p Hp. apply repeat_spec in Hp. subst. left. apply str_eqb_refl.
Qed.

(* ---------------------------------------------------------------- read-only commands never move *)
Lemma update_state_ps_nonmove : forall cmd r st st', is_move cmd = false -> update_state cmd r st = Some st' ->
  ps st' = ps st /\ cs st' = cs st.
Proof.
  intros cmd r st st' Hm. unfold update_state. rewrite Hm. cbn [andb]. intro H. inversion H; subst st'.
  destruct (starts_with s_SetPlacemarker cmd); [|split; reflexivity].
  destruct (r_node r); [|split; reflexivity]. destruct (last_digit cmd); split; reflexivity.
Qed.

Lemma cur_ps : forall root a b, ps a = ps b -> cur root a = cur root b.
Proof. intros root a b H. unfold cur. rewrite H. reflexivity. Qed.

Lemma apply_rules_cur_nonmove : forall ids root cmd k r st, is_move cmd = false ->
  cur root (fst (apply_rules ids root cmd k r st)) = cur root st.
Proof.
  intros ids root cmd k r st Hm. unfold apply_rules.
  destruct (negb _); [reflexivity|]. destruct (r_err r); [reflexivity|].
  destruct (update_state cmd r st) as [st3|] eqn:E; [|reflexivity].
  destruct (update_state_ps_nonmove cmd r st st3 Hm E) as [Hp _].
  assert (Hf : cur root (fst (finish st3 k)) = cur root st).
  { unfold finish. pose proof (cur_pop_stack root st3 k) as Hc. destruct (pop_stack st3 k) as [st' ok]. cbn [fst] in *.
    rewrite Hc. apply cur_ps. exact Hp. }
  destruct (in_ids _ ids && r_speak r); [|exact Hf].
  destruct (r_speech_err r); [apply cur_ps; exact Hp|]. destruct (r_speech_empty r); [apply cur_ps; exact Hp | exact Hf].
Qed.

Lemma nav_loop_cur_nonmove : forall ids root cmd outs fuel k st, is_move cmd = false ->
  cur root (fst (nav_loop ids root cmd outs k fuel st)) = cur root st.
Proof.
  intros ids root cmd outs fuel. induction fuel as [|fuel IH]; intros k st Hm; [reflexivity|]. cbn [nav_loop].
  pose proof (apply_rules_cur_nonmove ids root cmd k (outs k) st Hm) as Ha.
  destruct (apply_rules ids root cmd k (outs k) st) as [st' s]. cbn [fst] in Ha.
  destruct s; try exact Ha. rewrite IH by exact Hm. exact Ha.
Qed.

Lemma L_readonly_no_move : forall ids root cmd outs st, is_move cmd = false -> str_eqb cmd s_MoveLastLocation = false ->
  cur root (fst (nav_command ids root cmd outs st)) = cur root st.
Proof.
  intros ids root cmd outs st Hm Hl. unfold nav_command. rewrite Hl. rewrite nav_loop_cur_nonmove by exact Hm.
  destruct (ps st) eqn:E; unfold cur; cbn [push ps]; rewrite ?E; reflexivity.
Qed.

(* ---------------------------------------------------------------- commands that finish at the first rule application *)
Definition first_done (ids : list str) (r : rule_out) : Prop :=
  r_err r = false /\ r_speech_err r = false /\
  (r_speech_empty r = false \/ r_speak r = false \/ in_ids (match r_node r with Some n => n | None => illegal end) ids = false).

Lemma nav_command_first : forall ids root cmd outs st st0,
  st0 = (let s := match ps st with [] => push (mkpos root 0) s_None st | _ => st end in
         if str_eqb cmd s_MoveLastLocation then pop s else s) ->
  in_ids (node (cur root st0)) ids = true -> first_done ids (outs 0%nat) ->
  nav_command ids root cmd outs st =
  match update_state cmd (outs 0%nat) st0 with Some st3 => (st3, Done) | None => (st0, Panic) end.
Proof.
  intros ids root cmd outs st st0 E0 Hcur [He [Hse Hd]]. unfold nav_command. cbn zeta in E0. rewrite <- E0.
  cbn [nav_loop LOOP_LIMIT]. unfold apply_rules. rewrite Hcur, He. cbn [negb].
  destruct (update_state cmd (outs 0%nat) st0) as [st3|]; [|reflexivity].
  assert (Hf : finish st3 0 = (st3, Done)) by reflexivity.
  destruct (in_ids _ ids && r_speak (outs 0%nat)) eqn:Ei; [|rewrite Hf; reflexivity].
  rewrite Hse. apply andb_true_iff in Ei. destruct Ei as [Ei1 Ei2].
  destruct Hd as [Hd|[Hd|Hd]]; [rewrite Hd, Hf; reflexivity | congruence | congruence].
Qed.

Definition st_init (root : str) (st : nstate) : nstate :=
  match ps st with [] => push (mkpos root 0) s_None st | _ => st end.
Lemma cur_st_init : forall root st, cur root (st_init root st) = cur root st.
Proof. intros root st. unfold st_init. destruct (ps st) eqn:E; unfold cur; cbn [push ps]; rewrite ?E; reflexivity. Qed.

Lemma nav_command_first_nomll : forall ids root cmd outs st, str_eqb cmd s_MoveLastLocation = false ->
  in_ids (node (cur root st)) ids = true -> first_done ids (outs 0%nat) ->
  nav_command ids root cmd outs st =
  match update_state cmd (outs 0%nat) (st_init root st) with Some st3 => (st3, Done) | None => (st_init root st, Panic) end.
Proof.
  intros ids root cmd outs st Hl Hcur Hf.
  pose proof (nav_command_first ids root cmd outs st _ eq_refl) as H. cbn zeta in H. rewrite Hl in H.
  apply H; [|exact Hf]. fold (st_init root st). rewrite cur_st_init. exact Hcur.
Qed.

(* SetPlacemarker i stores what the rules name; MoveTo i (rules answer with the marker) goes there *)
Lemma L_placemarker_set : forall ids root cmd outs st i n,
  starts_with s_SetPlacemarker cmd = true -> is_move cmd = false -> str_eqb cmd s_MoveLastLocation = false ->
  last_digit cmd = Some i -> (i < List.length (marks st))%nat ->
  in_ids (node (cur root st)) ids = true -> first_done ids (outs 0%nat) -> r_node (outs 0%nat) = Some n ->
  nth i (marks (fst (nav_command ids root cmd outs st))) default_pos = mkpos n (r_off (outs 0%nat)).
Proof.
  intros ids root cmd outs st i n Hs Hm Hl Hd Hi Hcur Hf Hn.
  rewrite (nav_command_first_nomll ids root cmd outs st Hl Hcur Hf).
  unfold update_state. rewrite Hm, Hs, Hn, Hd. cbn [andb fst marks].
  assert (Hmk : marks (st_init root st) = marks st) by (unfold st_init; destruct (ps st); reflexivity).
  rewrite Hmk. clear Hmk Hd. revert i Hi. induction (marks st) as [|h t IH]; intros i Hi; [cbn in Hi; lia|].
  destruct i; [reflexivity|]. cbn [set_nth nth]. apply IH. cbn in Hi. lia.
Qed.

Lemma L_move_to_marker : forall ids root cmd outs st m,
  is_move cmd = true -> ps st <> [] -> in_ids (node (cur root st)) ids = true -> first_done ids (outs 0%nat) ->
  r_node (outs 0%nat) = Some (node m) -> r_off (outs 0%nat) = off m -> str_eqb (node m) illegal = false ->
  node (cur root (fst (nav_command ids root cmd outs st))) = node m.
Proof.
  intros ids root cmd outs st m Hm Hne Hcur Hf Hn Ho Hill.
  assert (Hl : str_eqb cmd s_MoveLastLocation = false).
  { unfold is_move in Hm. apply andb_true_iff in Hm. destruct Hm as [_ Hm]. apply negb_true_iff in Hm. exact Hm. }
  rewrite (nav_command_first_nomll ids root cmd outs st Hl Hcur Hf).
  unfold st_init. destruct (ps st) as [|top t] eqn:Ep; [congruence|].
  unfold update_state. rewrite Hm, Hn, Ho. cbn [ps andb].
  assert (Hd : pos_eqb (mkpos (node m) (off m)) default_pos = false).
  { unfold pos_eqb. cbn [node default_pos]. rewrite Hill. reflexivity. }
  rewrite Hd, Ep. cbn [negb node]. rewrite Hill. cbn [negb andb].
  destruct (str_eqb (node m) (node top)) eqn:Et; cbn [negb andb].
  - apply str_eqb_eq in Et.
    destruct (starts_with s_SetPlacemarker cmd); [destruct (last_digit cmd)|]; unfold cur; cbn [fst ps]; rewrite ?Ep; symmetry; exact Et.
  - destruct (starts_with s_SetPlacemarker cmd); [destruct (last_digit cmd)|]; reflexivity.
Qed.

(* undo: a move that was pushed, then MoveLastLocation, is back where it started *)
Lemma L_undo_returns : forall ids root outs st p c,
  ps st <> [] -> in_ids (node (cur root st)) ids = true -> first_done ids (outs 0%nat) ->
  cur root (fst (nav_command ids root s_MoveLastLocation outs (push p c st))) = cur root st.
Proof.
  intros ids root outs st p c Hne Hcur Hf.
  rewrite (nav_command_first ids root s_MoveLastLocation outs (push p c st) _ eq_refl); cbn zeta.
  2:{ rewrite str_eqb_refl. cbn [push ps pop tl]. unfold cur in *. cbn [ps]. exact Hcur. } 2:{ exact Hf. }
  rewrite str_eqb_refl. cbn [push ps pop tl cs].
  assert (Hm : is_move s_MoveLastLocation = false) by (vm_compute; reflexivity).
  destruct (update_state s_MoveLastLocation (outs 0%nat) _) as [st3|] eqn:E.
  - destruct (update_state_ps_nonmove _ _ _ _ Hm E) as [Hp _]. cbn [fst]. unfold cur. rewrite Hp. reflexivity.
  - reflexivity.
Qed.

(* ---------------------------------------------------------------- when can the unwraps of pop_stack fail? *)
Lemma drop_moves_ok : forall n st, lens st -> (n <= List.length (ps st))%nat -> snd (drop_moves n st) = true.
Proof.
  induction n as [|n IH]; intros st Hl Hn; [reflexivity|]. cbn [drop_moves].
  destruct (cs st) as [|c t] eqn:Ec.
  - unfold lens in Hl. rewrite Ec in Hl. cbn in Hl. lia.
  - apply IH.
    + destruct (is_move c); [apply lens_pop|]; exact Hl.
    + destruct (is_move c); [|lia]. cbn [pop ps]. destruct (ps st); cbn in *; lia.
Qed.

Lemma pop_stack_ok : forall st k, lens st -> (k + 1 <= List.length (ps st))%nat -> snd (pop_stack st k) = true.
Proof.
  intros st k Hl Hk. unfold pop_stack. destruct k; [reflexivity|].
  destruct (ps st) as [|p t] eqn:Ep; [cbn in Hk; lia|]. destruct (cs st) as [|c t'] eqn:Ec.
  - unfold lens in Hl. rewrite Ep, Ec in Hl. discriminate.
  - assert (Hd : snd (drop_moves (Datatypes.S k) (pop st)) = true).
    { apply drop_moves_ok; [apply lens_pop; exact Hl|]. cbn [pop ps]. rewrite Ep. cbn in *. lia. }
    destruct (drop_moves (Datatypes.S k) (pop st)) as [st' ok]. cbn [snd] in *. exact Hd.
Qed.

Lemma update_state_len : forall cmd r st st', update_state cmd r st = Some st' ->
  (List.length (ps st) <= List.length (ps st'))%nat /\ (lens st -> lens st').
Proof.
  intros cmd r st st'. unfold update_state.
  set (st1 := mkst (ps st) (cs st) (marks st) (r_mode r) (r_overview r)).
  assert (H1 : (List.length (ps st) <= List.length (ps st1))%nat /\ (lens st -> lens st1)) by (split; [cbn; lia | auto]).
  destruct (if is_move cmd && _ then _ else _) as [st2|] eqn:E2; [|discriminate].
  assert (H2 : (List.length (ps st) <= List.length (ps st2))%nat /\ (lens st -> lens st2)).
  { destruct (is_move cmd && _); [|inversion E2; subst; exact H1].
    destruct (ps st1) as [|top t] eqn:Ep; [discriminate|]. inversion E2; subst st2. clear E2.
    destruct H1 as [A B].
    destruct (negb _ && negb _).
    - split; [cbn [push ps]; rewrite Ep; cbn [List.length] in A |- *; lia | intro Hl; apply lens_push; apply B; exact Hl].
    - split; [rewrite Ep; exact A | exact B]. }
  intro H. inversion H; subst st'. destruct (starts_with s_SetPlacemarker cmd); [|exact H2].
  destruct (r_node r); [|exact H2]. destruct (last_digit cmd); exact H2.
Qed.

Lemma apply_rules_no_panic : forall ids root cmd k r st, lens st -> ps st <> [] -> (k + 1 <= List.length (ps st))%nat ->
  snd (apply_rules ids root cmd k r st) <> Panic /\
  lens (fst (apply_rules ids root cmd k r st)) /\ (List.length (ps st) <= List.length (ps (fst (apply_rules ids root cmd k r st))) \/ snd (apply_rules ids root cmd k r st) <> Retry)%nat.
Proof.
  intros ids root cmd k r st Hl Hne Hk. unfold apply_rules.
  destruct (negb _); [split; [discriminate | split; [exact Hl | left; cbn [fst]; lia]]|].
  destruct (r_err r); [split; [discriminate | split; [exact Hl | left; cbn [fst]; lia]]|].
  destruct (update_state cmd r st) as [st3|] eqn:E.
  - destruct (update_state_len cmd r st st3 E) as [Hlen Hls]. specialize (Hls Hl).
    assert (Hfin : snd (finish st3 k) <> Panic /\ lens (fst (finish st3 k)) /\ snd (finish st3 k) <> Retry).
    { unfold finish. pose proof (pop_stack_ok st3 k Hls ltac:(lia)) as Hok.
      assert (Hli : lens (fst (pop_stack st3 k))).
      { assert (HI : Inv [] st3 -> Inv [] (fst (pop_stack st3 k))) by apply pop_stack_inv.
        (* length part of pop_stack_inv does not depend on ids: redo directly *)
        clear HI. unfold pop_stack. destruct k; [exact Hls|].
        destruct (ps st3) as [|p t] eqn:Ep; [exact Hls|]. destruct (cs st3) as [|c t'] eqn:Ec; [exact Hls|].
        assert (Hd : lens (fst (drop_moves (Datatypes.S k) (pop st3)))).
        { assert (G : forall n s, lens s -> lens (fst (drop_moves n s))).
          { induction n as [|n IH]; intros s Hs; [exact Hs|]. cbn [drop_moves]. destruct (cs s) eqn:Es; [exact Hs|].
            apply IH. destruct (is_move s0); [apply lens_pop|]; exact Hs. }
          apply G. apply lens_pop. exact Hls. }
        destruct (drop_moves (Datatypes.S k) (pop st3)) as [st' ok]. cbn [fst] in *. apply lens_push. exact Hd. }
      destruct (pop_stack st3 k) as [st' ok]. cbn [fst snd] in *. subst ok. split; [discriminate | split; [exact Hli | discriminate]]. }
    destruct (in_ids _ ids && r_speak r).
    + destruct (r_speech_err r); [split; [discriminate | split; [exact Hls | right; discriminate]]|].
      destruct (r_speech_empty r); [split; [discriminate | split; [exact Hls | left; exact Hlen]]|].
      destruct Hfin as [A [B C]]. split; [exact A | split; [exact B | right; exact C]].
    + destruct Hfin as [A [B C]]. split; [exact A | split; [exact B | right; exact C]].
  - (* top().unwrap(): only on an empty stack *)
    exfalso. unfold update_state in E. destruct (is_move cmd && _).
    + cbn [ps] in E. destruct (ps st) eqn:Ep; [congruence|]. discriminate.
    + discriminate.
Qed.

Lemma nav_loop_no_panic : forall ids root cmd outs fuel k st, lens st -> ps st <> [] ->
  (k + fuel <= List.length (ps st) + k)%nat -> (k + fuel <= 3)%nat -> (3 <= List.length (ps st))%nat ->
  snd (nav_loop ids root cmd outs k fuel st) <> Panic.
Proof.
  intros ids root cmd outs fuel. induction fuel as [|fuel IH]; intros k st Hl Hne Hf H3 Hlen; [discriminate|].
  cbn [nav_loop].
  destruct (apply_rules_no_panic ids root cmd k (outs k) st Hl Hne ltac:(lia)) as [A [B C]].
  destruct (apply_rules ids root cmd k (outs k) st) as [st' s] eqn:E. cbn [fst snd] in *.
  destruct s; try discriminate; try congruence.
  destruct C as [C|C]; [|congruence].
  apply IH; try lia; try exact B. intro Hn. rewrite Hn in C. cbn in C. lia.
Qed.

(* with at least three history entries (four for MoveLastLocation) no command can hit the unwraps; and a command
   whose first rule application completes never does, whatever the history *)
Lemma L_nav_total : forall ids root cmd outs st, lens st ->
  (3 + (if str_eqb cmd s_MoveLastLocation then 1 else 0) <= List.length (ps st))%nat ->
  snd (nav_command ids root cmd outs st) <> Panic.
Proof.
  intros ids root cmd outs st Hl Hn. unfold nav_command.
  destruct (ps st) as [|p t] eqn:Ep; [cbn in Hn; lia|].
  destruct (str_eqb cmd s_MoveLastLocation).
  - assert (Hlen : (3 <= List.length (ps (pop st)))%nat) by (cbn [pop ps]; rewrite Ep; cbn in *; lia).
    apply nav_loop_no_panic; [apply lens_pop; exact Hl | | unfold LOOP_LIMIT; lia | unfold LOOP_LIMIT; lia | exact Hlen].
    intro Hc. rewrite Hc in Hlen. cbn in Hlen. lia.
  - assert (Hlen : (3 <= List.length (ps st))%nat) by (rewrite Ep; cbn in *; lia).
    apply nav_loop_no_panic; [exact Hl | intro Hc; cbn in Hc; congruence | unfold LOOP_LIMIT; lia | unfold LOOP_LIMIT; lia | exact Hlen].
Qed.

Lemma L_nav_total_first : forall ids root cmd outs st,
  in_ids (node (cur root (let s := match ps st with [] => push (mkpos root 0) s_None st | _ => st end in
                          if str_eqb cmd s_MoveLastLocation then pop s else s))) ids = true ->
  first_done ids (outs 0%nat) -> str_eqb cmd s_MoveLastLocation = false ->
  snd (nav_command ids root cmd outs st) <> Panic.
Proof.
  intros ids root cmd outs st Hcur Hf Hl.
  rewrite (nav_command_first ids root cmd outs st _ eq_refl Hcur Hf). cbn zeta. rewrite Hl.
  destruct (update_state cmd (outs 0%nat) _) as [st3|] eqn:E; [discriminate|].
  exfalso. unfold update_state in E. destruct (is_move cmd && _).
  - destruct (ps st) eqn:Ep; cbn [push ps] in E; rewrite ?Ep in E; destruct (negb _ && negb _) in E; discriminate.
  - discriminate.
Qed.

(* ---------------------------------------------------------------- after the repairs of pop_stack: no unwrap is left *)
Lemma drop_moves_true : forall n st, snd (drop_moves n st) = true.
Proof. induction n as [|n IH]; intro st; [reflexivity|]. cbn [drop_moves]. destruct (cs st); [reflexivity | apply IH]. Qed.
Lemma pop_stack_true : forall st k, snd (pop_stack st k) = true.
Proof.
  intros st k. unfold pop_stack. destruct k; [reflexivity|]. destruct (ps st); [reflexivity|]. destruct (cs st); [reflexivity|].
  pose proof (drop_moves_true (Datatypes.S k) (pop st)) as H. destruct (drop_moves (Datatypes.S k) (pop st)) as [st' ok]. exact H.
Qed.
Lemma finish_done : forall st k, snd (finish st k) = Done.
Proof. intros st k. unfold finish. pose proof (pop_stack_true st k) as H. destruct (pop_stack st k) as [st' ok]. cbn [snd] in *. rewrite H. reflexivity. Qed.

Lemma apply_rules_never_panics : forall ids root cmd k r st, (is_move cmd = false \/ ps st <> []) ->
  snd (apply_rules ids root cmd k r st) <> Panic /\
  (is_move cmd = false \/ ps (fst (apply_rules ids root cmd k r st)) <> []).
Proof.
  intros ids root cmd k r st H. unfold apply_rules.
  destruct (negb _); [split; [discriminate | exact H]|].
  destruct (r_err r); [split; [discriminate | exact H]|].
  destruct (update_state cmd r st) as [st3|] eqn:E.
  - destruct (update_state_len cmd r st st3 E) as [Hlen _].
    assert (H3 : is_move cmd = false \/ ps st3 <> []).
    { destruct H as [H|H]; [left; exact H | right]. intro Hn. rewrite Hn in Hlen. destruct (ps st); [congruence | cbn in Hlen; lia]. }
    assert (Hf : snd (finish st3 k) <> Panic) by (rewrite finish_done; discriminate).
    assert (Hf2 : is_move cmd = false \/ ps (fst (finish st3 k)) <> []).
    { destruct H3 as [H3|H3]; [left; exact H3 | right]. unfold finish, pop_stack. destruct k; [exact H3|].
      destruct (ps st3) as [|p t] eqn:Ep; [congruence|]. destruct (cs st3) as [|c t'] eqn:Ec; [cbn [fst]; rewrite Ep; discriminate|].
      destruct (drop_moves (Datatypes.S k) (pop st3)) as [st' ok]. cbn [fst push ps]. discriminate. }
    destruct (in_ids _ ids && r_speak r).
    + destruct (r_speech_err r); [split; [discriminate | exact H3]|].
      destruct (r_speech_empty r); [split; [discriminate | exact H3]|]. split; assumption.
    + split; assumption.
  - exfalso. unfold update_state in E. destruct (is_move cmd && _) eqn:M.
    + cbn [ps] in E. destruct (ps st) eqn:Ep.
      * apply andb_true_iff in M. destruct M as [M _]. destruct H as [H|H]; congruence.
      * discriminate.
    + discriminate.
Qed.

Lemma nav_loop_never_panics : forall ids root cmd outs fuel k st, (is_move cmd = false \/ ps st <> []) ->
  snd (nav_loop ids root cmd outs k fuel st) <> Panic.
Proof.
  intros ids root cmd outs fuel. induction fuel as [|fuel IH]; intros k st H; [discriminate|]. cbn [nav_loop].
  destruct (apply_rules_never_panics ids root cmd k (outs k) st H) as [A B].
  destruct (apply_rules ids root cmd k (outs k) st) as [st' s]. cbn [fst snd] in *.
  destruct s; try discriminate; try congruence. apply IH. exact B.
Qed.

(* EVERY command in EVERY state: no unwrap of the navigation stack can fail *)
Lemma L_nav_never_panics : forall ids root cmd outs st, snd (nav_command ids root cmd outs st) <> Panic.
Proof.
  intros ids root cmd outs st. unfold nav_command. apply nav_loop_never_panics.
  destruct (str_eqb cmd s_MoveLastLocation) eqn:E.
  - left. apply str_eqb_eq in E. subst cmd. vm_compute. reflexivity.
  - right. destruct (ps st) eqn:Ep; [cbn [push ps]; discriminate | rewrite Ep; discriminate].
Qed.

(* the scenario in which the unwrap was reachable before the repairs (a read command on a fresh expression whose first
   speech is empty and whose second application does not speak; found on the library by the C08 search:
   ToggleZoomLockUp on <mphantom>q</mphantom><msqrt>...) now completes *)
Definition silent_then_done (k : nat) : rule_out :=
  match k with
  | O => mkout false (Some (S "r"%string)) 0 [] false true false true
  | _ => mkout false (Some (S "r"%string)) 0 [] false false false false
  end.
Lemma L_silent_first_try_completes :
  snd (nav_command [S "r"%string] (S "r"%string) (S "ReadCurrent"%string) silent_then_done init_state) = Done /\
  snd (nav_command [S "r"%string] (S "r"%string) (S "MoveLastLocation"%string) silent_then_done init_state) = Done.
Proof. vm_compute. split; reflexivity. Qed.
