(* the trim model (Model/Trim.v): comments, processing instructions and text between elements never matter *)
From MC Require Import Lib.Base Gen.AssureSets Model.Trim.
From Coq Require Import String.
Local Open Scope string_scope.
Local Open Scope list_scope.
Local Open Scope N_scope.

(* induction over documents *)
Lemma xnode_ind' (P : xnode -> Prop) :
  (forall s, P (XText s)) -> P XComment -> P XPI ->
  (forall g alt kids, Forall P kids -> P (XEl g alt kids)) -> forall t, P t.
Proof.
  intros Ht Hc Hp He. fix IH 1. intros [s| | |g alt kids]; [apply Ht|apply Hc|apply Hp|].
  apply He. induction kids as [|k r IHr]; constructor; [apply IH|exact IHr].
Qed.

Definition is_el (t : xnode) : bool := match t with XEl _ _ _ => true | _ => false end.

(* ---- the inner loops as list functions ---- *)
Lemma gather_eq : forall g alt kids, gather (XEl g alt kids) = flat_map gather kids.
Proof. intros g alt kids. cbn [gather]. induction kids as [|k r IH]; [reflexivity|]. cbn [flat_map]. rewrite <- IH. reflexivity. Qed.

Definition bare_kid (keep_text : bool) (k : xnode) : list xnode :=
  match k with
  | XComment => [] | XPI => []
  | XText s => if keep_text then [XText s] else []
  | x => [bare keep_text x]
  end.
Lemma bare_eq : forall b g alt kids,
  bare b (XEl g alt kids) = XEl g alt (flat_map (bare_kid (b || in_names g leaf_nodes)) kids).
Proof.
  intros b g alt kids. cbn [bare]. f_equal. induction kids as [|k r IH]; [reflexivity|]. cbn [flat_map].
  destruct k as [s| | |g' a' k']; cbn [bare_kid app]; rewrite <- IH; try reflexivity.
  destruct (b || in_names g leaf_nodes); reflexivity.
Qed.

Lemma trim_nonleaf : forall g alt kids, in_names g leaf_nodes = false ->
  trim (XEl g alt kids) = XEl g alt (map trim (filter is_el kids)).
Proof.
  intros g alt kids H. cbn [trim]. rewrite H. f_equal. induction kids as [|k r IH]; [reflexivity|].
  destruct k as [s| | |g' a' k']; cbn [filter is_el map]; rewrite <- IH; reflexivity.
Qed.

Definition leaf_text (kids : list xnode) : str := norm_ws (flat_map child_text kids).
Lemma trim_leaf : forall g alt kids, in_names g leaf_nodes = true ->
  trim (XEl g alt kids) = match kids with [] => XEl g alt [] | _ => XEl g alt [XText (leaf_text kids)] end.
Proof. intros g alt kids H. cbn [trim]. rewrite H. reflexivity. Qed.

Definition erase_kid (k : xnode) : list xnode :=
  match k with XText [] => [] | XEl _ _ _ => [erase k] | x => [x] end.
Lemma erase_eq : forall g alt kids, erase (XEl g alt kids) = XEl g alt (flat_map erase_kid kids).
Proof.
  intros g alt kids. cbn [erase]. f_equal. induction kids as [|k r IH]; [reflexivity|]. cbn [flat_map].
  destruct k as [[|c s]| | |g' a' k']; cbn [erase_kid app]; rewrite <- IH; reflexivity.
Qed.

Lemma norm_ws_nil : norm_ws [] = [].
Proof. reflexivity. Qed.

(* what is left of a token, once empty texts are forgotten, depends on the gathered text only *)
Lemma erase_trim_leaf : forall g alt kids, in_names g leaf_nodes = true ->
  erase (trim (XEl g alt kids)) = XEl g alt (match leaf_text kids with [] => [] | tx => [XText tx] end).
Proof.
  intros g alt kids H. rewrite trim_leaf by exact H. destruct kids as [|k r].
  - rewrite erase_eq. reflexivity.
  - rewrite erase_eq. cbn [flat_map erase_kid app]. destruct (leaf_text (k :: r)); reflexivity.
Qed.

(* ---- below a token: only comments and processing instructions go ---- *)
Lemma gather_bare : forall t, gather (bare true t) = gather t.
Proof.
  induction t as [s| | |g alt kids IH] using xnode_ind'; try reflexivity.
  rewrite bare_eq, !gather_eq. cbn [orb]. induction kids as [|k r IHr]; [reflexivity|].
  inversion IH as [|? ? Hk Hr]; subst. cbn [flat_map]. rewrite flat_map_app, (IHr Hr).
  destruct k as [s| | |g' a' k']; cbn [bare_kid flat_map app]; rewrite ?app_nil_r; try reflexivity.
  rewrite Hk. reflexivity.
Qed.

Lemma child_text_bare_kids : forall kids,
  flat_map child_text (flat_map (bare_kid true) kids) = flat_map child_text kids.
Proof.
  induction kids as [|k r IH]; [reflexivity|]. cbn [flat_map]. rewrite flat_map_app, IH.
  destruct k as [s| | |g' a' k']; cbn [bare_kid flat_map app]; rewrite ?app_nil_r; try reflexivity.
  f_equal. rewrite bare_eq. cbn [child_text].
  destruct (str_eqb g' s_mglyph); [reflexivity|]. rewrite <- (bare_eq true). apply gather_bare.
Qed.

(* ---- the theorem ---- *)
Theorem L_spelling_does_not_matter : forall t, erase (trim (bare false t)) = erase (trim t).
Proof.
  induction t as [s| | |g alt kids IH] using xnode_ind'; try reflexivity.
  rewrite bare_eq. cbn [orb]. destruct (in_names g leaf_nodes) eqn:L.
  - rewrite !erase_trim_leaf by exact L. unfold leaf_text. rewrite child_text_bare_kids. reflexivity.
  - rewrite !trim_nonleaf by exact L. rewrite !erase_eq. f_equal.
    induction kids as [|k r IHr]; [reflexivity|]. inversion IH as [|? ? Hk Hr]; subst.
    cbn [flat_map]. rewrite filter_app, map_app, flat_map_app, (IHr Hr).
    destruct k as [s| | |g' a' k']; cbn [bare_kid filter is_el map flat_map app]; try reflexivity.
    rewrite bare_eq. cbn [is_el filter map flat_map app]. rewrite <- bare_eq.
    f_equal. assert (E : forall x, is_el x = true -> erase_kid x = [erase x]) by (intros [| | |? ? ?]; cbn; congruence || reflexivity).
    assert (Et : forall x, is_el x = true -> is_el (trim x) = true).
    { intros [| | |g2 a2 k2] Hx; try discriminate. cbn [trim]. destruct (in_names g2 leaf_nodes); [destruct k2|]; reflexivity. }
    rewrite (E (trim (bare false (XEl g' a' k')))), (E (trim (XEl g' a' k'))).
    + rewrite Hk. reflexivity.
    + apply Et. reflexivity.
    + apply Et. rewrite bare_eq. reflexivity.
Qed.

(* blanks around and inside a token's text: only the words count *)
Lemma words_from_ws : forall c s, is_ws c = true -> words_from [] (c :: s) = words_from [] s.
Proof. intros c s H. cbn [words_from]. rewrite H. reflexivity. Qed.

Theorem L_leading_blanks_do_not_matter : forall pad s, forallb is_ws pad = true -> norm_ws (pad ++ s) = norm_ws s.
Proof.
  unfold norm_ws. induction pad as [|c pad IH]; intros s H; [reflexivity|]. cbn [forallb] in H. apply andb_true_iff in H.
  destruct H as [Hc Hp]. cbn [app]. rewrite words_from_ws by exact Hc. apply IH. exact Hp.
Qed.

Lemma words_from_only_ws : forall pad cur, forallb is_ws pad = true ->
  words_from cur pad = match cur with [] => [] | _ => [cur] end.
Proof.
  induction pad as [|c pad IH]; intros cur H; [reflexivity|]. cbn [forallb] in H. apply andb_true_iff in H. destruct H as [Hc Hp].
  cbn [words_from]. rewrite Hc. destruct cur as [|x cur]; [apply (IH [] Hp)|]. rewrite (IH [] Hp). reflexivity.
Qed.

Lemma words_from_app_ws : forall s pad cur, forallb is_ws pad = true -> words_from cur (s ++ pad) = words_from cur s.
Proof.
  induction s as [|c s IH]; intros pad cur H.
  - cbn [app]. rewrite (words_from_only_ws pad cur H). reflexivity.
  - cbn [app words_from]. destruct (is_ws c).
    + destruct cur as [|x cur]; rewrite (IH pad [] H); reflexivity.
    + apply IH. exact H.
Qed.

Theorem L_blanks_around_do_not_matter : forall pad s pad', forallb is_ws pad = true -> forallb is_ws pad' = true ->
  norm_ws (pad ++ s ++ pad') = norm_ws s.
Proof.
  intros pad s pad' H H'. rewrite (L_leading_blanks_do_not_matter pad (s ++ pad') H). unfold norm_ws.
  rewrite (words_from_app_ws s pad' [] H'). reflexivity.
Qed.

(* non-vacuity: a number written with a comment in the middle, blanks around it, indentation between the elements *)
Example trim_example :
  let t := XEl (S "math") None [XText [10; 32]; XEl (S "mn") None [XText [32; 49]; XComment; XText [50; 10]]; XText [10]; XPI] in
  trim t = XEl (S "math") None [XEl (S "mn") None [XText [49; 50]]] /\ bare false t = XEl (S "math") None [XEl (S "mn") None [XText [32; 49]; XText [50; 10]]].
Proof. cbn zeta. split; vm_compute; reflexivity. Qed.
