(* C19: proofs about the intent lexer and parser. *)
From MC Require Import Lib.Base Lib.Tree Gen.IntentRe Gen.ElemSets Model.Intent.
From Coq Require Import String.
Local Close Scope string_scope.
Local Open Scope N_scope.

(* ---------------------------------------------------------------- lexer: progress and totality *)
Lemma trim_start_len : forall s, (List.length (trim_start s) <= List.length s)%nat.
Proof. induction s as [|c t IH]; [cbn; lia|]. cbn [trim_start]. destruct (is_ws c); cbn [List.length]; lia. Qed.

Lemma take_while_len : forall f s a b, take_while f s = (a, b) -> (List.length a + List.length b = List.length s)%nat.
Proof.
  intros f s. induction s as [|c t IH]; intros a b H; cbn [take_while] in H; [inversion H; reflexivity|].
  destruct (f c); [|inversion H; cbn; lia]. destruct (take_while f t) as [a' b'] eqn:E.
  specialize (IH a' b' eq_refl). inversion H; subst. cbn [List.length]. lia.
Qed.

Lemma name_prefix_len : forall s n r, name_prefix s = Some (n, r) -> (List.length r < List.length s)%nat /\ n <> [].
Proof.
  intros s n r H. unfold name_prefix in H. destruct s as [|c t]; [discriminate|]. destruct (name_first c); [|discriminate].
  destruct (take_while name_rest t) as [a b] eqn:E. inversion H; subst. apply take_while_len in E. cbn [List.length]. split; [lia | discriminate].
Qed.

Lemma number_prefix_len : forall s n r, number_prefix s = Some (n, r) -> (List.length r < List.length s)%nat.
Proof.
  intros s n r H. unfold number_prefix in H.
  set (sr := match s with c :: t => if c =? 45 then ([45], t) else ([], s) | [] => ([], s) end) in H.
  assert (Hsr : (List.length (snd sr) <= List.length s)%nat).
  { unfold sr. destruct s as [|c t]; [cbn; lia|]. destruct (c =? 45); cbn; lia. }
  destruct sr as [sign r0]. cbn [snd] in Hsr. destruct (take_while is_digit r0) as [ds r1] eqn:E1.
  apply take_while_len in E1. destruct ds as [|d ds]; [discriminate|].
  destruct r1 as [|c1 t1]; [inversion H; subst; cbn in *; lia|].
  destruct (c1 =? 46).
  - destruct (take_while is_digit t1) as [fs r2] eqn:E2. apply take_while_len in E2.
    destruct fs; inversion H; subst; cbn [List.length] in *; lia.
  - inversion H; subst. cbn [List.length] in *. lia.
Qed.

(* every token consumes at least one code point *)
Lemma L_lex_progress : forall s t r, lex1 s = Some (t, r) -> (List.length r < List.length s)%nat.
Proof.
  intros s t r H. unfold lex1 in H. destruct s as [|c s']; [discriminate|].
  destruct (memN c terminals).
  - inversion H; subst. pose proof (trim_start_len s'). cbn [List.length]. lia.
  - destruct (c =? 58).
    + destruct (name_prefix s') as [[n r']|] eqn:E; [|discriminate]. inversion H; subst.
      apply name_prefix_len in E. pose proof (trim_start_len r'). cbn [List.length]. lia.
    + destruct (c =? 36).
      * destruct (name_prefix s') as [[n r']|] eqn:E; [|discriminate]. inversion H; subst.
        apply name_prefix_len in E. pose proof (trim_start_len r'). cbn [List.length]. lia.
      * destruct (name_prefix (c :: s')) as [[n r']|] eqn:E.
        -- inversion H; subst. apply name_prefix_len in E. pose proof (trim_start_len r'). lia.
        -- destruct (number_prefix (c :: s')) as [[n r']|] eqn:E2; [|discriminate]. inversion H; subst.
           apply number_prefix_len in E2. pose proof (trim_start_len r'). lia.
Qed.

(* the lexer never needs more steps than there are code points: extra fuel changes nothing *)
Lemma L_lex_fuel_suffices : forall fuel s, (List.length s <= fuel)%nat -> lex_all fuel s = lex_all (List.length s) s.
Proof.
  assert (G : forall n s fuel, (List.length s <= n)%nat -> (List.length s <= fuel)%nat -> lex_all fuel s = lex_all (List.length s) s).
  { induction n as [|n IH]; intros s fuel Hn Hf.
    - destruct s; [destruct fuel; reflexivity | cbn in Hn; lia].
    - destruct s as [|c t]; [destruct fuel; reflexivity|].
      destruct fuel as [|fuel]; [cbn in Hf; lia|]. cbn [List.length lex_all].
      destruct (lex1 (c :: t)) as [[tk r]|] eqn:E; [|reflexivity].
      pose proof (L_lex_progress _ _ _ E) as Hp. cbn [List.length] in Hp, Hn, Hf.
      rewrite (IH r fuel ltac:(lia) ltac:(lia)). rewrite (IH r (List.length t) ltac:(lia) ltac:(lia)). reflexivity. }
  intros fuel s H. apply (G (List.length s) s fuel); [lia | exact H].
Qed.

(* ---------------------------------------------------------------- attribute edits are undone at every exit *)
Lemma attrs_clean_sound : forall evs m d k, attrs_clean_at_exits m d evs = true -> attrs_after m d evs k = (false, false).
Proof.
  induction evs as [|e t IH]; intros m d k H; cbn [attrs_clean_at_exits attrs_after] in *.
  - apply andb_true_iff in H. destruct H as [H1 H2]. destruct m, d; try discriminate. reflexivity.
  - destruct (e =? 0); [apply IH; exact H|]. destruct (e =? 4); [apply IH; exact H|].
    destruct (e =? 1); [apply IH; exact H|]. destruct (e =? 2); [apply IH; exact H|].
    apply andb_true_iff in H. destruct H as [H1 H2]. apply andb_true_iff in H1. destruct H1 as [Hm Hd].
    destruct k; [destruct m, d; try discriminate; reflexivity | apply IH; exact H2].
Qed.
Lemma property_branch_clean : attrs_clean_at_exits false false property_branch_events = true.
Proof. vm_compute. reflexivity. Qed.
Lemma recovery_clean : attrs_clean_at_exits false false recovery_events = true.
Proof. vm_compute. reflexivity. Qed.
Lemma L_tree_restored : forall k,
  attrs_after false false property_branch_events k = (false, false) /\ attrs_after false false recovery_events k = (false, false).
Proof. intro k. split; apply attrs_clean_sound; [exact property_branch_clean | exact recovery_clean]. Qed.

(* ---------------------------------------------------------------- parser: consumption, termination, grammar *)
Section ParserProofs.
  Variable find_arg : str -> option (option tree).
  Variable match_self : str -> option tree.
  Variable self_name : str.
  Notation BI := (build_intent find_arg match_self self_name).
  Notation BF := (build_function find_arg match_self self_name).
  Notation BA := (build_args find_arg match_self self_name).


  Lemma BI_S : forall fuel l, BI (Datatypes.S fuel) l =
      match l with
      | TProp _ :: _ =>
          let (p, r) := props_of l in
          if hd_is 40 r then POk (set_props p (T self_name [] [] [])) r
          else match match_self p with Some t => POk t r | None => PErr end
      | TName w :: r => let (t1, r1) := with_props (T (S "mi"%string) [] [] w) r in BF fuel t1 r1
      | TNum w :: r => let (t1, r1) := with_props (T (S "mn"%string) [] [] w) r in BF fuel t1 r1
      | TArg w :: r =>
          match find_arg (tl w) with
          | Some (Some e) => let (t1, r1) := with_props e r in BF fuel t1 r1
          | _ => PErr
          end
      | _ => PErr
      end.
  Proof. reflexivity. Qed.
  Lemma BF_S : forall fuel f l, BF (Datatypes.S fuel) f l =
      if hd_is 40 l then
        if hd_is 41 (tl l) then PErr
        else match BA fuel (tl l) with
             | AOk kids r' => if hd_is 41 r' then BF fuel (lift f kids) (tl r') else PErr
             | AErr => PErr
             | AFuel => PFuel
             end
      else POk f l.
  Proof. reflexivity. Qed.
  Lemma BA_S : forall fuel l, BA (Datatypes.S fuel) l =
      match BI fuel l with
      | POk t r =>
          if hd_is 44 r then
            match BA fuel (tl r) with AOk ts r'' => AOk (t :: ts) r'' | AErr => AErr | AFuel => AFuel end
          else AOk [t] r
      | PErr => AErr
      | PFuel => AFuel
      end.
  Proof. reflexivity. Qed.

  Lemma props_of_len : forall l, (List.length (snd (props_of l)) <= List.length l)%nat.
  Proof.
    induction l as [|t l IH]; [cbn; lia|]. destruct t; cbn [props_of]; try (cbn; lia).
    destruct (props_of l) as [a r]. cbn [snd List.length] in *. lia.
  Qed.
  Lemma props_of_len_prop : forall p l, (List.length (snd (props_of (TProp p :: l))) < List.length (TProp p :: l))%nat.
  Proof. intros p l. cbn [props_of]. pose proof (props_of_len l). destruct (props_of l). cbn [snd List.length] in *. lia. Qed.

  Lemma with_props_len : forall t r, (List.length (snd (with_props t r)) <= List.length r)%nat.
  Proof.
    intros t r. unfold with_props. destruct (hd_prop r); [|cbn; lia].
    pose proof (props_of_len r). destruct (props_of r). cbn [snd] in *. exact H.
  Qed.

  Lemma hd_is_len : forall c l, hd_is c l = true -> (List.length (tl l) < List.length l)%nat.
  Proof. intros c l H. destruct l; [discriminate | cbn; lia]. Qed.

  Lemma consume : forall fuel,
    (forall l t r, BI fuel l = POk t r -> (List.length r < List.length l)%nat) /\
    (forall f l t r, BF fuel f l = POk t r -> (List.length r <= List.length l)%nat) /\
    (forall l ts r, BA fuel l = AOk ts r -> (List.length r < List.length l)%nat).
  Proof.
    induction fuel as [|fuel [IHI [IHF IHA]]]; [repeat split; intros; discriminate|].
    assert (HI : forall l t r, BI (Datatypes.S fuel) l = POk t r -> (List.length r < List.length l)%nat).
    { intros l t r H. rewrite BI_S in H. destruct l as [|tk l']; [discriminate|]. destruct tk as [c|p|w|w|w].
      - discriminate.
      - pose proof (props_of_len_prop p l') as Hp. destruct (props_of (TProp p :: l')) as [pp rr]. cbn [snd] in Hp.
        destruct (hd_is 40 rr); [inversion H; subst; exact Hp|]. destruct (match_self pp); inversion H; subst; exact Hp.
      - destruct (find_arg (tl w)) as [[e|]|]; try discriminate.
        pose proof (with_props_len e l') as Hw. destruct (with_props e l') as [t1 r1]. cbn [snd] in Hw.
        apply IHF in H. cbn [List.length]. lia.
      - pose proof (with_props_len (T (S "mi"%string) [] [] w) l') as Hw. destruct (with_props _ l') as [t1 r1]. cbn [snd] in Hw.
        apply IHF in H. cbn [List.length]. lia.
      - pose proof (with_props_len (T (S "mn"%string) [] [] w) l') as Hw. destruct (with_props _ l') as [t1 r1]. cbn [snd] in Hw.
        apply IHF in H. cbn [List.length]. lia. }
    split; [exact HI|]. split.
    - intros f l t r H. rewrite BF_S in H. destruct (hd_is 40 l) eqn:E40; [|inversion H; subst; lia].
      destruct (hd_is 41 (tl l)); [discriminate|]. destruct (BA fuel (tl l)) as [kids r'| |] eqn:Ea; try discriminate.
      destruct (hd_is 41 r') eqn:E41; [|discriminate]. apply IHA in Ea. apply IHF in H.
      pose proof (hd_is_len _ _ E40). pose proof (hd_is_len _ _ E41). lia.
    - intros l ts r H. rewrite BA_S in H. destruct (BI fuel l) as [t r0| |] eqn:Ei; try discriminate.
      apply IHI in Ei. destruct (hd_is 44 r0) eqn:E44; [|inversion H; subst; exact Ei].
      destruct (BA fuel (tl r0)) as [ts' r''| |] eqn:Ea; try discriminate. inversion H; subst. apply IHA in Ea.
      pose proof (hd_is_len _ _ E44). lia.
  Qed.

  (* enough fuel: 3 * tokens + 1 / + 1 / + 2 *)
  Lemma no_fuel : forall n,
    (forall l fuel, (List.length l <= n)%nat -> (3 * List.length l + 1 <= fuel)%nat -> BI fuel l <> PFuel) /\
    (forall f l fuel, (List.length l <= n)%nat -> (3 * List.length l + 1 <= fuel)%nat -> BF fuel f l <> PFuel) /\
    (forall l fuel, (List.length l <= n)%nat -> (3 * List.length l + 2 <= fuel)%nat -> BA fuel l <> AFuel).
  Proof.
    induction n as [n IH] using (well_founded_induction lt_wf).
    assert (HF : forall f l fuel, (List.length l <= n)%nat -> (3 * List.length l + 1 <= fuel)%nat -> BF fuel f l <> PFuel).
    { intros f l. revert f. induction l as [l IHl] using (well_founded_induction (well_founded_ltof _ (@List.length token))). unfold ltof in IHl.
      intros f fuel Hn Hf. destruct fuel as [|fuel]; [lia|]. rewrite BF_S.
      destruct (hd_is 40 l) eqn:E40; [|discriminate]. destruct (hd_is 41 (tl l)); [discriminate|].
      pose proof (hd_is_len _ _ E40) as Hl.
      destruct (BA fuel (tl l)) as [kids r'| |] eqn:Ea; [|discriminate|].
      - destruct (hd_is 41 r') eqn:E41; [|discriminate]. pose proof (proj2 (proj2 (consume fuel)) _ _ _ Ea) as Hc.
        pose proof (hd_is_len _ _ E41) as Hl2. apply IHl; lia.
      - exfalso. assert (Hlt : (List.length (tl l) < n)%nat) by lia.
        destruct (IH (List.length (tl l)) Hlt) as [_ [_ HA]]. apply (HA (tl l) fuel); [lia | lia | exact Ea]. }
    assert (HI : forall l fuel, (List.length l <= n)%nat -> (3 * List.length l + 1 <= fuel)%nat -> BI fuel l <> PFuel).
    { intros l fuel Hn Hf. destruct fuel as [|fuel]; [lia|]. rewrite BI_S. destruct l as [|tk l']; [discriminate|].
      cbn [List.length] in Hn, Hf. destruct tk as [c|p|w|w|w].
      - discriminate.
      - destruct (props_of (TProp p :: l')) as [pp rr]. destruct (hd_is 40 rr); [discriminate|]. destruct (match_self pp); discriminate.
      - destruct (find_arg (tl w)) as [[e|]|]; try discriminate.
        pose proof (with_props_len e l') as Hw. destruct (with_props e l') as [t1 r1]. cbn [snd] in Hw. apply HF; lia.
      - pose proof (with_props_len (T (S "mi"%string) [] [] w) l') as Hw. destruct (with_props _ l') as [t1 r1]. cbn [snd] in Hw. apply HF; lia.
      - pose proof (with_props_len (T (S "mn"%string) [] [] w) l') as Hw. destruct (with_props _ l') as [t1 r1]. cbn [snd] in Hw. apply HF; lia. }
    split; [exact HI|]. split; [exact HF|].
    intros l. induction l as [l IHl] using (well_founded_induction (well_founded_ltof _ (@List.length token))). unfold ltof in IHl.
    intros fuel Hn Hf. destruct fuel as [|fuel]; [lia|]. rewrite BA_S.
    destruct (BI fuel l) as [t r0| |] eqn:Ei; [|discriminate|exfalso; apply (HI l fuel); [lia | lia | exact Ei]].
    pose proof (proj1 (consume fuel) _ _ _ Ei) as Hc. destruct (hd_is 44 r0) eqn:E44; [|discriminate].
    pose proof (hd_is_len _ _ E44) as Hl2.
    destruct (BA fuel (tl r0)) as [ts' r''| |] eqn:Ea; [discriminate | discriminate|].
    exfalso. apply (IHl (tl r0) ltac:(lia) fuel); [lia | lia | exact Ea].
  Qed.

  Lemma L_intent_fuel_suffices : forall toks, BI (3 * List.length toks + 3) toks <> PFuel.
  Proof. intro toks. destruct (no_fuel (List.length toks)) as [H _]. apply H; lia. Qed.

  (* ---- the grammar the parser accepts ---- *)
  Definition term_tok (t : token) : Prop := match t with TName _ | TNum _ | TArg _ => True | _ => False end.
  Inductive Props : list token -> Prop :=
  | Pr1 : forall p, Props [TProp p]
  | PrS : forall p ps, Props ps -> Props (TProp p :: ps).
  Inductive Expr : list token -> Prop :=
  | ESelf : forall ps, Props ps -> Expr ps
  | ETerm : forall t ps apps, term_tok t -> (ps = [] \/ Props ps) -> Apps apps -> Expr (t :: ps ++ apps)
  with Apps : list token -> Prop :=
  | ANil : Apps []
  | ACons : forall args rest, Args args -> Apps rest -> Apps (TTerm 40 :: args ++ TTerm 41 :: rest)
  with Args : list token -> Prop :=
  | Arg1 : forall e, Expr e -> Args e
  | ArgS : forall e rest, Expr e -> Args rest -> Args (e ++ TTerm 44 :: rest).

  Lemma props_of_split : forall p l, exists ps, TProp p :: l = ps ++ snd (props_of (TProp p :: l)) /\ Props ps.
  Proof.
    intros p l. revert p. induction l as [|t l IH]; intro p.
    - exists [TProp p]. split; [reflexivity | constructor].
    - destruct t as [c|q|w|w|w]; try (exists [TProp p]; split; [reflexivity | constructor]).
      destruct (IH q) as [ps [E Hps]]. exists (TProp p :: ps). cbn [props_of] in *.
      destruct (props_of l) as [a r]. cbn [snd] in *. split; [cbn [app]; rewrite <- E; reflexivity | constructor; exact Hps].
  Qed.

  Lemma with_props_split : forall t r, exists ps, r = ps ++ snd (with_props t r) /\ (ps = [] \/ Props ps).
  Proof.
    intros t r. unfold with_props. destruct r as [|tk r']; [exists []; split; [reflexivity | left; reflexivity]|].
    destruct tk as [c|p|w|w|w]; cbn [hd_prop]; try (exists []; split; [reflexivity | left; reflexivity]).
    destruct (props_of_split p r') as [ps [E Hps]]. exists ps. destruct (props_of (TProp p :: r')) as [a rr]. cbn [snd] in *.
    split; [exact E | right; exact Hps].
  Qed.

  Lemma hd_is_split : forall c l, hd_is c l = true -> l = TTerm c :: tl l.
  Proof.
    intros c l H. destruct l as [|t l']; [discriminate|]. destruct t; try discriminate. cbn [hd_is is_term] in H.
    apply N.eqb_eq in H. subst. reflexivity.
  Qed.

  Lemma sound : forall fuel,
    (forall l t r, BI fuel l = POk t r -> exists p, l = p ++ r /\ Expr p) /\
    (forall f l t r, BF fuel f l = POk t r -> exists p, l = p ++ r /\ Apps p) /\
    (forall l ts r, BA fuel l = AOk ts r -> exists p, l = p ++ r /\ Args p).
  Proof.
    induction fuel as [|fuel [IHI [IHF IHA]]]; [repeat split; intros; discriminate|].
    assert (Hterm : forall tk t0 l' t r, term_tok tk -> (let (t1, r1) := with_props t0 l' in BF fuel t1 r1) = POk t r ->
              exists p, tk :: l' = p ++ r /\ Expr p).
    { intros tk t0 l' t r Htk H. destruct (with_props_split t0 l') as [ps [E Hps]].
      destruct (with_props t0 l') as [t1 r1]. cbn [snd] in E. apply IHF in H. destruct H as [apps [E2 Ha]].
      exists (tk :: ps ++ apps). split; [rewrite E, E2; cbn [app]; rewrite app_assoc; reflexivity | constructor; assumption]. }
    split; [|split].
    - intros l t r H. rewrite BI_S in H. destruct l as [|tk l']; [discriminate|]. destruct tk as [c|p|w|w|w].
      + discriminate.
      + destruct (props_of_split p l') as [ps [E Hps]]. destruct (props_of (TProp p :: l')) as [pp rr]. cbn [snd] in E.
        assert (Hr : r = rr) by (destruct (hd_is 40 rr); [inversion H; reflexivity | destruct (match_self pp); inversion H; reflexivity]).
        subst r. exists ps. split; [exact E | constructor; exact Hps].
      + destruct (find_arg (tl w)) as [[e|]|]; try discriminate. apply (Hterm (TArg w) e l' t r I H).
      + apply (Hterm (TName w) _ l' t r I H).
      + apply (Hterm (TNum w) _ l' t r I H).
    - intros f l t r H. rewrite BF_S in H. destruct (hd_is 40 l) eqn:E40; [|inversion H; subst; exists []; split; [reflexivity | constructor]].
      destruct (hd_is 41 (tl l)); [discriminate|]. destruct (BA fuel (tl l)) as [kids r'| |] eqn:Ea; try discriminate.
      destruct (hd_is 41 r') eqn:E41; [|discriminate]. apply IHA in Ea. destruct Ea as [args [E1 Hargs]].
      apply IHF in H. destruct H as [rest [E2 Hrest]].
      exists (TTerm 40 :: args ++ TTerm 41 :: rest). split; [|constructor; assumption].
      rewrite (hd_is_split _ _ E40), E1, (hd_is_split _ _ E41), E2. cbn [app]. rewrite <- app_assoc. reflexivity.
    - intros l ts r H. rewrite BA_S in H. destruct (BI fuel l) as [t r0| |] eqn:Ei; try discriminate.
      apply IHI in Ei. destruct Ei as [e [E1 He]]. destruct (hd_is 44 r0) eqn:E44.
      + destruct (BA fuel (tl r0)) as [ts' r''| |] eqn:Ea; try discriminate. inversion H; subst. apply IHA in Ea.
        destruct Ea as [rest [E2 Hrest]]. exists (e ++ TTerm 44 :: rest). split; [|constructor; assumption].
        rewrite (hd_is_split _ _ E44), E2. rewrite <- app_assoc. reflexivity.
      + inversion H; subst. exists e. split; [reflexivity | constructor; exact He].
  Qed.

  (* an accepted value is lexically valid and grammatical: its whole token sequence is an Expr *)
  Lemma L_grammar_sound : forall s t, parse find_arg match_self self_name s = Some t ->
    exists toks, lex s = Some toks /\ Expr toks.
  Proof.
    intros s t H. unfold parse in H. destruct (lex s) as [toks|]; [|discriminate]. exists toks. split; [reflexivity|].
    destruct (BI (3 * List.length toks + 3) toks) as [t' r| |] eqn:E; try discriminate. destruct r; [|discriminate].
    destruct (proj1 (sound _) _ _ _ E) as [p [Ep Hp]]. rewrite app_nil_r in Ep. subst. exact Hp.
  Qed.
End ParserProofs.
