(* C04 / C05 proofs about the assembly of speech strings. *)
From MC Require Import Lib.Base Model.SpeechAsm.
Local Open Scope N_scope.

Lemma digits_app : forall a b, digits (a ++ b) = digits a ++ digits b.
Proof. intros. unfold digits. apply filter_app. Qed.

Lemma digits_none : forall s, no_digits s = true -> digits s = [].
Proof.
  induction s as [|c s IH]; intro H; [reflexivity|]. cbn [no_digits forallb] in H. apply andb_true_iff in H.
  destruct H as [H1 H2]. unfold digits. cbn [filter]. apply negb_true_iff in H1. rewrite H1. apply IH. exact H2.
Qed.

Lemma ws_not_digit : forall c, is_ws c = true -> is_digit c = false.
Proof.
  intros c H. unfold is_ws, in_ranges, ws_ranges in H. cbn [existsb fst snd] in H. unfold is_digit.
  repeat (apply orb_true_iff in H; destruct H as [H|H]); try discriminate;
    apply andb_true_iff in H; destruct H as [A B]; apply N.leb_le in A, B;
    apply andb_false_iff; first [left; apply N.leb_gt; lia | right; apply N.leb_gt; lia].
Qed.

Lemma digits_trim_start : forall s, digits (trim_start s) = digits s.
Proof.
  induction s as [|c s IH]; [reflexivity|]. cbn [trim_start]. destruct (is_ws c) eqn:E; [|reflexivity].
  rewrite IH. unfold digits. cbn [filter]. rewrite (ws_not_digit _ E). reflexivity.
Qed.

Lemma find_c_split : forall c s a b, find_c c s = Some (a, b) -> s = a ++ c :: b.
Proof.
  intros c s. induction s as [|x r IH]; intros a b H; cbn [find_c] in H; [discriminate|].
  destruct (N.eqb_spec x c) as [E|E].
  - inversion H; subst. reflexivity.
  - destruct (find_c c r) as [[a' b']|] eqn:F; [|discriminate]. inversion H; subst. cbn [app]. f_equal. apply IH. reflexivity.
Qed.

Lemma opt_not_digit : is_digit OPT = false.
Proof. reflexivity. Qed.

(* when the text before the indicator and the optional word carry no digit, removing a repetitive optional word loses no digit *)
Lemma is_repetitive_digits : forall prev x y, optional_harmless x = true -> is_repetitive prev x = Some y -> digits y = digits x.
Proof.
  intros prev x y Hh H. unfold is_repetitive in H. destruct (byte_len x <=? 6); [discriminate|].
  unfold optional_harmless in Hh.
  destruct (find_c OPT x) as [[pre a]|] eqn:F1; [|discriminate].
  destruct (find_c OPT a) as [[w rest]|] eqn:F2; [|discriminate].
  destruct ((byte_len w <? byte_len (trim_end prev)) && ends_with (trim_end prev) w); [|discriminate].
  inversion H; subst y. apply andb_true_iff in Hh. destruct Hh as [Hp Hw].
  rewrite (find_c_split _ _ _ _ F1), (find_c_split _ _ _ _ F2).
  rewrite digits_trim_start. rewrite !digits_app. rewrite (digits_none _ Hp).
  change (digits (OPT :: (w ++ OPT :: rest))) with (digits (w ++ OPT :: rest)).
  rewrite digits_app, (digits_none _ Hw). reflexivity.
Qed.

Lemma fix_go_digits : forall l prev, forallb optional_harmless l = true ->
  digits (concat (fix_go prev l)) = digits (concat l).
Proof.
  induction l as [|x r IH]; intros prev H; [reflexivity|]. cbn [forallb] in H. apply andb_true_iff in H. destruct H as [Hx Hr].
  destruct r as [|x2 r2]; [reflexivity|].
  change (fix_go prev (x :: x2 :: r2)) with
    ((match is_repetitive prev x with Some y => y | None => x end) :: fix_go (match is_repetitive prev x with Some y => y | None => x end) (x2 :: r2)).
  cbn [concat]. rewrite !digits_app. rewrite IH by exact Hr. cbn [concat]. rewrite !digits_app. f_equal.
  destruct (is_repetitive prev x) as [y|] eqn:E; [|reflexivity]. eapply is_repetitive_digits; eauto.
Qed.

Theorem L_assembly_keeps_digits : forall strs, forallb optional_harmless strs = true ->
  digits (concat (fix_optional strs)) = digits (concat strs).
Proof.
  intros [|a r] H; [reflexivity|]. cbn [fix_optional concat]. rewrite !digits_app. f_equal.
  cbn [forallb] in H. apply andb_true_iff in H. apply fix_go_digits. apply H.
Qed.

Lemma digits_join : forall l, digits (join_sp l) = digits (concat l).
Proof.
  induction l as [|x r IH]; [reflexivity|]. destruct r as [|y r]; [cbn; rewrite app_nil_r; reflexivity|].
  change (join_sp (x :: y :: r)) with (x ++ 32 :: join_sp (y :: r)).
  change (concat (x :: y :: r)) with (x ++ concat (y :: r)). rewrite !digits_app.
  change (digits (32 :: join_sp (y :: r))) with (digits (join_sp (y :: r))). rewrite IH. reflexivity.
Qed.

Theorem L_join_keeps_digits : forall strs, forallb optional_harmless strs = true ->
  digits (join_sp (fix_optional strs)) = digits (concat strs).
Proof. intros. rewrite digits_join. apply L_assembly_keeps_digits. assumption. Qed.

(* the refutation without the guard: text before the indicator is dropped together with the optional word *)
Definition w_prev : str := [111; 118; 101; 114; 32; 116; 104; 101].                       (* "over the" *)
Definition w_opt : str := [55; 46; 53; 32; 112; 108; 117; 115; 32; OPT; 116; 104; 101; OPT; 32; 102; 114; 97; 99; 116; 105; 111; 110].
                                                                                      (* "7.5 plus <the> fraction" *)
Lemma L_prefix_dropped : exists y, is_repetitive w_prev w_opt = Some y /\ digits y = [] /\ digits w_opt = [55; 53].
Proof. eexists. split; [vm_compute; reflexivity|]. split; reflexivity. Qed.

(* ---- C05: the final clean-up leaves no marker ---- *)
Lemma remove_c_notin : forall c s, ~ In c (remove_c c s).
Proof.
  intros c s H. unfold remove_c in H. apply filter_In in H. destruct H as [_ H]. rewrite N.eqb_refl in H. discriminate.
Qed.
Lemma remove_c_keeps_notin : forall c d s, ~ In d s -> ~ In d (remove_c c s).
Proof. intros c d s H Hin. apply H. unfold remove_c in Hin. apply filter_In in Hin. apply Hin. Qed.

Lemma trim_start_incl : forall s x, In x (trim_start s) -> In x s.
Proof.
  induction s as [|c s IH]; intros x H; [exact H|]. cbn [trim_start] in H. destruct (is_ws c); [right; apply IH; exact H | exact H].
Qed.
Lemma trim_incl : forall s x, In x (trim s) -> In x s.
Proof.
  intros s x H. unfold trim, trim_end in H. apply in_rev in H. apply trim_start_incl in H. apply in_rev in H.
  apply trim_start_incl in H. exact H.
Qed.

Theorem L_cleanup_no_markers : forall s, ~ In OPT (cleanup s) /\ ~ In CONCAT (cleanup s).
Proof.
  intro s. unfold cleanup. split; intro H; apply trim_incl in H.
  - exact (remove_c_notin _ _ H).
  - revert H. apply remove_c_keeps_notin. apply remove_c_notin.
Qed.

(* the clean-up only removes markers and blanks: every other character survives, in order *)
Definition plain_char (c : N) : bool := negb (c =? OPT) && negb (c =? CONCAT) && negb (is_ws c).
Lemma filter_trim_start : forall s, filter plain_char (trim_start s) = filter plain_char s.
Proof.
  induction s as [|c s IH]; [reflexivity|]. cbn [trim_start]. destruct (is_ws c) eqn:E; [|reflexivity].
  rewrite IH. cbn [filter]. unfold plain_char at 2. rewrite E. rewrite andb_false_r. reflexivity.
Qed.
Lemma filter_rev : forall {A} (f : A -> bool) l, filter f (rev l) = rev (filter f l).
Proof.
  intros A f l. induction l as [|x l IH]; [reflexivity|]. cbn [rev filter]. rewrite filter_app, IH. cbn [filter].
  destruct (f x); [reflexivity | apply app_nil_r].
Qed.
Lemma filter_trim : forall s, filter plain_char (trim s) = filter plain_char s.
Proof.
  intro s. unfold trim, trim_end. rewrite filter_rev, filter_trim_start, filter_rev, rev_involutive. apply filter_trim_start.
Qed.
Lemma filter_remove_c : forall c s, plain_char c = false -> filter plain_char (remove_c c s) = filter plain_char s.
Proof.
  intros c s Hc. induction s as [|x s IH]; [reflexivity|]. unfold remove_c in *. cbn [filter].
  destruct (N.eqb_spec x c) as [E|E]; cbn [negb].
  - subst x. rewrite Hc. exact IH.
  - cbn [filter]. rewrite IH. reflexivity.
Qed.
Lemma filter_remove_sp_concat : forall s, filter plain_char (remove_sp_concat s) = filter plain_char s.
Proof.
  intro s. remember (List.length s) as n eqn:Hn. revert s Hn.
  induction n as [n IH] using (well_founded_induction lt_wf). intros s Hn. destruct s as [|x r]; [reflexivity|].
  destruct r as [|c r2]; [reflexivity|].
  change (remove_sp_concat (x :: c :: r2)) with
    (if (x =? 32) && (c =? CONCAT) then remove_sp_concat r2 else x :: remove_sp_concat (c :: r2)).
  destruct (N.eqb_spec x 32) as [E|E]; [destruct (N.eqb_spec c CONCAT) as [Ec|Ec]|]; cbn [andb].
  - subst x c. change (filter plain_char (32 :: CONCAT :: r2)) with (filter plain_char r2).
    apply (IH (List.length r2)); [subst n; cbn [List.length]; lia | reflexivity].
  - change (filter plain_char (x :: remove_sp_concat (c :: r2))) with
      (if plain_char x then x :: filter plain_char (remove_sp_concat (c :: r2)) else filter plain_char (remove_sp_concat (c :: r2))).
    change (filter plain_char (x :: c :: r2)) with
      (if plain_char x then x :: filter plain_char (c :: r2) else filter plain_char (c :: r2)).
    rewrite (IH (List.length (c :: r2))); [reflexivity | subst n; cbn [List.length]; lia | reflexivity].
  - change (filter plain_char (x :: remove_sp_concat (c :: r2))) with
      (if plain_char x then x :: filter plain_char (remove_sp_concat (c :: r2)) else filter plain_char (remove_sp_concat (c :: r2))).
    change (filter plain_char (x :: c :: r2)) with
      (if plain_char x then x :: filter plain_char (c :: r2) else filter plain_char (c :: r2)).
    rewrite (IH (List.length (c :: r2))); [reflexivity | subst n; cbn [List.length]; lia | reflexivity].
Qed.

Theorem L_cleanup_keeps_text : forall s, filter plain_char (cleanup s) = filter plain_char s.
Proof.
  intro s. unfold cleanup. rewrite filter_trim. rewrite filter_remove_c by reflexivity. rewrite filter_remove_c by reflexivity.
  apply filter_remove_sp_concat.
Qed.
