(* C04 generated obligation: Gen/RuleSets.v holds every shipped intent / speech / overview / braille rule set as the
   engine files it (rules in load order, includes in place; regenerated on every run from the YAML text) with the ids of
   the rules whose match is "." -- a match that holds for every element.  Each set has such a rule filed under "*" in
   the table the engine builds; hence match_pattern finds a rule for every element, whatever its tag and whatever the
   other matches evaluate to ("No match found" cannot happen). *)
From MC Require Import Lib.Base Model.RuleTable Proofs.RuleTableP Gen.RuleSets.
Local Open Scope N_scope.

Definition has_catch_all (rs : list rule) (dots : list N) : bool :=
  existsb (fun r => memN (r_id r) dots) (get (build rs) s_star).

Lemma L_every_rule_set_has_a_catch_all : forallb (fun x => has_catch_all (snd (fst x)) (snd x)) shipped_rule_sets = true.
Proof. vm_compute. reflexivity. Qed.

Lemma In_nth_false {A} (x : A) l : In x l -> exists n, nth_error l n = Some x /\ (n < List.length l)%nat.
Proof.
  induction l as [|y l IH]; intros H; [destruct H|]. destruct H as [H|H].
  - subst y. exists O. split; [reflexivity|cbn; lia].
  - destruct (IH H) as [n [H1 H2]]. exists (Datatypes.S n). split; [exact H1|cbn; lia].
Qed.

Theorem L_matching_is_total : forall path rs dots, In (path, rs, dots) shipped_rule_sets ->
  forall tag os,
  (forall n r, nth_error (candidates (build rs) tag) n = Some r -> In (r_id r) dots -> nth n os false = true) ->
  first_hit (candidates (build rs) tag) os <> None.
Proof.
  intros path rs dots Hin tag os Hos.
  pose proof (forallb_In _ _ _ L_every_rule_set_has_a_catch_all Hin) as H. cbv beta in H. cbn [fst snd] in H.
  unfold has_catch_all in H. apply existsb_exists in H. destruct H as [r [Hr Hd]]. apply memN_In in Hd.
  assert (Hc : In r (candidates (build rs) tag)).
  { unfold candidates. apply in_or_app. right. apply in_or_app. right. exact Hr. }
  destruct (In_nth_false r _ Hc) as [n [Hn Hlt]].
  apply (L_catch_all_makes_matching_total _ os n Hlt). apply (Hos n r Hn Hd).
Qed.
