(* C03 proofs, part 3: the operator infos the parser works with ("good": an entry of the generated dictionary or one
   of the synthetic statics, identified by its cell) satisfy what the machine proofs assume about n-ary merging. *)
From MC Require Import Lib.Base Lib.Tree Gen.OpDict Model.ParserCore Model.Parser Model.ParserSpec Proofs.ParserNary.
Local Open Scope N_scope.

Definition statics : list opinfo :=
  [op_fencepost; op_times_high; op_sep_high; op_bond; op_plus_slash; op_def_prefix; op_def_infix; op_def_postfix].

Definition of_cell (c : N) : option opinfo :=
  if c <? 16 then find (fun o => o_cell o =? c) statics
  else if c <? 4294967296 then
    match nth_error opdict (N.to_nat ((c - 16) / 4)) with
    | Some (_, (ty, pr) :: _) => if (c - 16) mod 4 =? 0 then Some (OI ty pr c) else None
    | _ => None
    end
  else let e := c - 4294967296 in Some (OI ((e / 1024) mod 16) (e mod 1024) c).     (* a later alternative: its content *)

Definition opinfo_eqb (a b : opinfo) : bool := (o_ty a =? o_ty b) && (o_prio a =? o_prio b) && (o_cell a =? o_cell b).
Definition goodb (o : opinfo) : bool := match of_cell (o_cell o) with Some o' => opinfo_eqb o o' | None => false end.
Definition good (o : opinfo) : Prop := goodb o = true.

Lemma opinfo_eqb_eq : forall a b, opinfo_eqb a b = true -> a = b.
Proof.
  intros [ta pa ca] [tb pb cb] H. unfold opinfo_eqb in H. cbn in H.
  repeat rewrite andb_true_iff in H. destruct H as [[H1 H2] H3]. apply N.eqb_eq in H1, H2, H3. subst. reflexivity.
Qed.

Lemma good_of_cell : forall a, good a -> of_cell (o_cell a) = Some a.
Proof.
  intros a H. unfold good, goodb in H. destruct (of_cell (o_cell a)) as [o|] eqn:E; [|discriminate].
  apply opinfo_eqb_eq in H. subst. reflexivity.
Qed.

Lemma good_same_cell : forall a b, good a -> good b -> o_cell a = o_cell b -> a = b.
Proof.
  intros a b Ha Hb E. apply good_of_cell in Ha, Hb. rewrite E in Ha. rewrite Ha in Hb. inversion Hb. reflexivity.
Qed.

Lemma good_named : good op_plus /\ good op_minus /\ good op_times /\ good op_times_sign /\ good op_fencepost.
Proof. repeat split; vm_compute; reflexivity. Qed.

Lemma named_prios :
  o_prio op_plus = o_prio op_minus /\ o_ty op_plus = 2 /\ o_ty op_minus = 2 /\
  o_prio op_times = o_prio op_times_sign /\ o_ty op_times = 2 /\ o_ty op_times_sign = 2.
Proof. repeat split; vm_compute; reflexivity. Qed.

Lemma cls_cases : forall x, (cls x = kP /\ (x = kP \/ x = kM)) \/ (cls x = kT /\ (x = kT \/ x = kX)) \/
                            (cls x = x /\ x <> kP /\ x <> kM /\ x <> kT /\ x <> kX).
Proof.
  intro x. unfold cls.
  destruct (N.eqb_spec x kP); [left; split; [reflexivity | left; assumption]|].
  destruct (N.eqb_spec x kM); [left; split; [reflexivity | right; assumption]|]. cbn [orb].
  destruct (N.eqb_spec x kT); [right; left; split; [reflexivity | left; assumption]|].
  destruct (N.eqb_spec x kX); [right; left; split; [reflexivity | right; assumption]|]. cbn [orb].
  right; right. auto.
Qed.

Lemma good_nary : forall a b, good a -> good b -> is_nary a b = true -> o_prio a = o_prio b /\ o_ty a = o_ty b.
Proof.
  intros a b Ha Hb H. rewrite is_nary_cls in H. apply N.eqb_eq in H.
  destruct good_named as [G1 [G2 [G3 [G4 _]]]]. destruct named_prios as [N1 [N2 [N3 [N4 [N5 N6]]]]].
  pose proof named_cells_distinct as D.
  repeat rewrite andb_true_iff in D. repeat rewrite negb_true_iff in D.
  destruct D as [[[[[D1 D2] D3] D4] D5] D6]. apply N.eqb_neq in D1, D2, D3, D4, D5, D6.
  assert (PA : forall x, good x -> o_cell x = kP \/ o_cell x = kM -> o_prio x = o_prio op_plus /\ o_ty x = 2).
  { intros x Gx [E|E]; [rewrite (good_same_cell x op_plus Gx G1 E) | rewrite (good_same_cell x op_minus Gx G2 E)];
      (split; [congruence | assumption]). }
  assert (TA : forall x, good x -> o_cell x = kT \/ o_cell x = kX -> o_prio x = o_prio op_times /\ o_ty x = 2).
  { intros x Gx [E|E]; [rewrite (good_same_cell x op_times Gx G3 E) | rewrite (good_same_cell x op_times_sign Gx G4 E)];
      (split; [congruence | assumption]). }
  destruct (cls_cases (o_cell a)) as [[Ca Ea]|[[Ca Ea]|[Ca Ea]]]; destruct (cls_cases (o_cell b)) as [[Cb Eb]|[[Cb Eb]|[Cb Eb]]];
    rewrite Ca, Cb in H.
  - destruct (PA a Ha Ea) as [A1 A2]. destruct (PA b Hb Eb) as [B1 B2]. split; congruence.
  - exfalso. congruence.
  - exfalso. destruct Eb as [E1 [E2 _]]. congruence.
  - exfalso. congruence.
  - destruct (TA a Ha Ea) as [A1 A2]. destruct (TA b Hb Eb) as [B1 B2]. split; congruence.
  - exfalso. destruct Eb as [_ [_ [E3 E4]]]. congruence.
  - exfalso. destruct Ea as [E1 [E2 _]]. congruence.
  - exfalso. destruct Ea as [_ [_ [E3 E4]]]. congruence.
  - rewrite (good_same_cell a b Ha Hb H). auto.
Qed.

Lemma good_not_illegal : forall a, good a -> ptr_eq a op_illegal = false.
Proof.
  intros a Ha. unfold ptr_eq. destruct (N.eqb_spec (o_cell a) (o_cell op_illegal)) as [E|E]; [|reflexivity].
  exfalso. unfold good, goodb in Ha. rewrite E in Ha. vm_compute in Ha. discriminate.
Qed.

(* ---------------------------------------------------------------- the generated dictionary *)
Definition ty_okb (ty : N) : bool := (ty =? 1) || (ty =? 2) || (ty =? 4) || (ty =? 9) || (ty =? 12).
Definition form_okb (f : N * N) : bool :=
  let (ty, pr) := f in
  ty_okb ty && (if (ty =? 9) || (ty =? 12) then (0 <? pr) && (pr <=? 20) else 20 <? pr).
Definition entry_okb (e : str * list (N * N)) : bool :=
  negb (null (snd e)) && (List.length (snd e) <=? 3)%nat && forallb form_okb (snd e).

(* every entry has one to three forms, each prefix / infix / postfix / left fence / right fence; fences have a
   priority in 1..20, every other operator a priority above 20 *)
Lemma opdict_ok : forallb entry_okb opdict = true.
Proof. vm_compute. reflexivity. Qed.

Lemma dict_find_In : forall d i s j ch, dict_find_from i s d = Some (j, ch) -> exists k, In (k, ch) d.
Proof.
  induction d as [|[k c] d IH]; intros i s j ch H; cbn [dict_find_from] in H; [discriminate|].
  destruct (str_eqb s k).
  - inversion H; subst. exists k. left. reflexivity.
  - destruct (IH _ _ _ _ H) as [k' Hk]. exists k'. right. exact Hk.
Qed.

Lemma chain_from_tys : forall ch i j o, In o (chain_from i j ch) -> exists pr, In (o_ty o, pr) ch /\ o_prio o = pr.
Proof.
  induction ch as [|[ty pr] ch IH]; intros i j o H; cbn [chain_from] in H; [destruct H|].
  destruct H as [H|H].
  - subst o. exists pr. split; [left; reflexivity | reflexivity].
  - destruct (IH _ _ _ H) as [pr' [A B]]. exists pr'. split; [right; exact A | exact B].
Qed.

Lemma dict_get_forms : forall s chain o, dict_get s = Some chain -> In o chain -> form_okb (o_ty o, o_prio o) = true.
Proof.
  intros s chain o H Hin. unfold dict_get in H. destruct (dict_find_from 0 s opdict) as [[i ch]|] eqn:E; [|discriminate].
  inversion H; subst chain. destruct (dict_find_In _ _ _ _ _ E) as [k Hk].
  pose proof (forallb_In entry_okb opdict (k, ch) opdict_ok Hk) as Ek. unfold entry_okb in Ek. cbn [snd] in Ek.
  apply andb_true_iff in Ek. destruct Ek as [_ Ef].
  destruct (chain_from_tys _ _ _ _ Hin) as [pr [A B]]. rewrite B. exact (forallb_In _ _ _ Ef A).
Qed.

(* OperatorVersions::new never reaches its panic! on a dictionary entry *)
Lemma operator_versions_total : forall chain v, (forall o, In o chain -> ty_okb (o_ty o) = true) ->
  exists v', operator_versions chain v = Ok v'.
Proof.
  induction chain as [|o chain IH]; intros [[p i] q] H; cbn [operator_versions]; [eexists; reflexivity|].
  assert (Ho : ty_okb (o_ty o) = true) by (apply H; left; reflexivity).
  assert (Hr : forall x, In x chain -> ty_okb (o_ty x) = true) by (intros x Hx; apply H; right; exact Hx).
  destruct (is_prefix o) eqn:E1; [apply IH; exact Hr|].
  destruct (is_infix o) eqn:E2; [apply IH; exact Hr|].
  destruct (is_postfix o) eqn:E3; [apply IH; exact Hr|].
  exfalso. destruct o as [ty pr ce]. unfold ty_okb in Ho. cbn [o_ty] in Ho.
  unfold is_prefix, is_infix, is_postfix, has_type in E1, E2, E3. cbn [o_ty] in E1, E2, E3.
  repeat rewrite orb_true_iff in Ho. destruct Ho as [[[[Ho|Ho]|Ho]|Ho]|Ho]; apply N.eqb_eq in Ho; subst ty; discriminate.
Qed.

Lemma dictionary_versions_total : forall s chain, dict_get s = Some chain ->
  exists v, operator_versions chain (None, None, None) = Ok v.
Proof.
  intros s chain H. apply operator_versions_total. intros o Ho.
  pose proof (dict_get_forms _ _ _ H Ho) as F. unfold form_okb in F. apply andb_true_iff in F. apply F.
Qed.
