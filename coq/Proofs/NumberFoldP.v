(* C16: proofs about number folding. *)
From MC Require Import Lib.Base Lib.Regex Model.NumberFold.
Local Open Scope N_scope.

(* ---------------------------------------------------------------- folding is sound *)
(* a span is only ever merged when the text that was checked matches one of the locale's number patterns *)
Lemma L_fold_sound : forall c dom span, is_likely c dom span = true ->
  likely_pattern c (trim (checked_text false span)) = true.
Proof.
  intros c dom span H. unfold is_likely in H. cbn zeta in H.
  destruct (likely_pattern c (trim (checked_text false span))); [reflexivity | discriminate].
Qed.

(* what the right-sibling scan absorbs: numbers without separators, and mo / mtext that carry a separator *)
Definition absorbable (c : ctx) (k : tok) : bool :=
  ((tag k =? 0) && negb (has_any (block c) (text k)) && negb (has_any (dec c) (text k))) ||
  (((tag k =? 1) || (tag k =? 2)) && (has_any (block c) (text k) || has_any (dec c) (text k))).

Lemma L_scan_absorbs_only_number_parts : forall c nc l hd, forallb (absorbable c) (firstn (fst (scan c nc hd l)) l) = true.
Proof.
  intros c nc l. induction l as [|k r IH]; intro hd; [reflexivity|]. cbn [scan].
  destruct (tag k =? 0) eqn:E0.
  - destruct (is_roman (text k) || has_any (block c) (text k) || has_any (dec c) (text k)) eqn:Eb; [reflexivity|].
    specialize (IH hd). destruct (scan c nc hd r) as [n b]. cbn [fst firstn forallb] in *. rewrite IH, andb_true_r.
    unfold absorbable. rewrite E0. apply orb_false_iff in Eb. destruct Eb as [Eb Ed]. apply orb_false_iff in Eb.
    destruct Eb as [_ Eb]. rewrite Eb, Ed. reflexivity.
  - destruct ((tag k =? 1) || (tag k =? 2)) eqn:E12; [|reflexivity].
    destruct ((str_eqb (text k) [44] && nc) || negb (has_any (block c) (text k) || has_any (dec c) (text k)) || (has_any (dec c) (text k) && hd)) eqn:Eb; [reflexivity|].
    specialize (IH (hd || has_any (dec c) (text k))). destruct (scan c nc (hd || has_any (dec c) (text k)) r) as [n b].
    cbn [fst firstn forallb] in *. rewrite IH, andb_true_r. unfold absorbable. rewrite E0, E12. cbn [andb orb].
    apply orb_false_iff in Eb. destruct Eb as [Eb _]. apply orb_false_iff in Eb. destruct Eb as [_ Eb].
    apply negb_false_iff in Eb. exact Eb.
Qed.

(* ---------------------------------------------------------------- a comma list inside fences is left as a list *)
Definition mn (t : str) (i : nat) := mktok 0 t false i.
Definition mo (t : str) (f : bool) (i : nat) := mktok 1 t f i.

Lemma L_fenced_span_not_merged : forall c dom span p n f l,
  span = f :: l -> rev span <> [] ->
  memN 44 (trim (checked_text false span)) = true ->
  firstn (idx f) dom <> [] -> rev (firstn (idx f) dom) = p :: rev (removelast (firstn (idx f) dom)) ->
  skipn (Datatypes.S (idx (last span f))) dom = n :: tl (skipn (Datatypes.S (idx (last span f))) dom) ->
  is_fence_mo p = true -> is_fence_mo n = true ->
  is_likely c dom span = false.
Proof.
  intros c dom span p n f l Hs Hr Hc Hb Hp Hn Fp Fn. unfold is_likely. cbn zeta.
  destruct (likely_pattern c (trim (checked_text false span))); [|reflexivity]. cbn [negb]. rewrite Hc. cbn [negb].
  subst span. destruct (rev (f :: l)) as [|lst rl] eqn:Er; [congruence|].
  assert (Hlast : last (f :: l) f = lst).
  { assert (H : rev (rev (f :: l)) = rev (lst :: rl)) by (rewrite Er; reflexivity). rewrite rev_involutive in H. rewrite H.
    cbn [rev]. apply last_last. }
  rewrite Hlast in Hn. destruct (firstn (idx f) dom) as [|b0 bt] eqn:Eb; [congruence|].
  rewrite Hn. rewrite Hp. rewrite Fp, Fn. reflexivity.
Qed.

(* concrete and fully general in the numbers: ( a , b ) with a fence on each side is never folded *)
Lemma L_fenced_comma_list_kept : forall c a b,
  is_likely c [mo [40] true 0; mn a 1; mo [44] false 2; mn b 3; mo [41] true 4] [mn a 1; mo [44] false 2; mn b 3] = true ->
  memN 44 (trim (a ++ [44] ++ b)) = true -> False.
Proof.
  intros c a b H Hc. unfold is_likely in H. cbn zeta in H. cbn [checked_text tag text mn mo andb app] in H.
  change ((0 =? 0)) with true in H. change ((1 =? 0)) with false in H. cbn [andb app] in H.
  rewrite app_nil_r in H.
  destruct (likely_pattern c (trim (a ++ 44 :: b))); [|discriminate]. cbn [negb] in H.
  change (a ++ [44] ++ b) with (a ++ 44 :: b) in Hc. rewrite Hc in H. cbn [negb] in H.
  cbn in H. discriminate.
Qed.

(* ---------------------------------------------------------------- numbers of the locale grammar match the pattern *)
Definition digits (s : str) : Prop := Forall (fun c => 48 <= c /\ c <= 57) s.

Lemma digit_matches : forall c, 48 <= c -> c <= 57 -> Matches Digit [c].
Proof.
  intros c H1 H2. constructor. unfold cls_match, in_ranges. cbn [existsb fst snd xorb].
  assert (E1 : (48 <=? c) = true) by (apply N.leb_le; exact H1). assert (E2 : (c <=? 57) = true) by (apply N.leb_le; exact H2).
  rewrite E1, E2. reflexivity.
Qed.

Lemma rep_digits : forall n s, digits s -> List.length s = n -> Matches (Rep n Digit) s.
Proof.
  induction n as [|n IH]; intros s Hd Hl.
  - destruct s; [constructor | discriminate].
  - destruct s as [|c t]; [discriminate|]. inversion Hd as [|c' t' [H1 H2] Ht]; subst.
    cbn [Rep]. change (c :: t) with ([c] ++ t). constructor; [apply digit_matches; assumption | apply IH; [exact Ht | cbn in Hl; lia]].
Qed.

Lemma upto_digits : forall n s, digits s -> (List.length s <= n)%nat -> Matches (UpTo n Digit) s.
Proof.
  induction n as [|n IH]; intros s Hd Hl.
  - destruct s; [constructor | cbn in Hl; lia].
  - cbn [UpTo]. unfold Opt. destruct s as [|c t]; [apply MAltL; constructor|]. apply MAltR.
    inversion Hd as [|c' t' [H1 H2] Ht]; subst. change (c :: t) with ([c] ++ t).
    constructor; [apply digit_matches; assumption | apply IH; [exact Ht | cbn in Hl; lia]].
Qed.

Lemma reprange_digits : forall lo hi s, digits s -> (lo <= List.length s <= hi)%nat -> Matches (RepRange lo hi Digit) s.
Proof.
  intros lo hi s Hd [H1 H2]. unfold RepRange. rewrite <- (firstn_skipn lo s). constructor.
  - apply rep_digits; [apply Forall_firstn'; exact Hd | rewrite firstn_length; lia].
  - apply upto_digits; [apply Forall_skipn'; exact Hd | rewrite skipn_length; lia].
Qed.

Lemma star_digits : forall s, digits s -> Matches (Star Digit) s.
Proof.
  induction s as [|c t IH]; intro Hd; [constructor|]. inversion Hd as [|c' t' [H1 H2] Ht]; subst.
  change (c :: t) with ([c] ++ t). constructor; [apply digit_matches; assumption | apply IH; exact Ht].
Qed.

Lemma sep_matches : forall pref c, In c pref -> Matches (SepClass pref) [c].
Proof.
  intros pref c Hin. constructor. unfold cls_match.
  assert (H : in_ranges c (map (fun x : N => (x, x)) pref) = true).
  { unfold in_ranges. apply existsb_exists.
    exists (c, c). split; [apply in_map_iff; exists c; split; [reflexivity | exact Hin] | cbn [fst snd]; rewrite N.leb_refl; reflexivity]. }
  rewrite H. reflexivity.
Qed.

(* a grouped integer: lead group of 1-3 digits, then any number of (separator, 3 digits) *)
Inductive groups (blk : str) : str -> Prop :=
| G0 : groups blk []
| GS : forall sep g rest, In sep blk -> digits g -> List.length g = 3%nat -> groups blk rest -> groups blk (sep :: g ++ rest).

Lemma groups_match : forall blk s, groups blk s -> Matches (Star (Seq (Opt (SepClass blk)) (Rep 3 Digit))) s.
Proof.
  intros blk s H. induction H as [|sep g rest Hin Hd Hl Hr IH]; [constructor|].
  change (sep :: g ++ rest) with (([sep] ++ g) ++ rest). constructor; [|exact IH].
  constructor; [apply MAltR; apply sep_matches; exact Hin | apply rep_digits; assumption].
Qed.

(* every number of the locale grammar matches the 3-digit block pattern, for every separator setting *)
Lemma L_grammar_number_matches : forall blk dc lead gs frac d,
  digits lead -> (1 <= List.length lead <= 3)%nat -> groups blk gs -> In d dc -> digits frac ->
  matchb (number_pattern blk dc 3 3) (lead ++ gs) = true /\
  matchb (number_pattern blk dc 3 3) (lead ++ gs ++ d :: frac) = true.
Proof.
  intros blk dc lead gs frac d Hl Hlen Hg Hd Hf.
  assert (Hint : Matches (Alt (Star Digit) (Seq (RepRange 1 3 Digit) (Star (Seq (Opt (SepClass blk)) (Rep 3 Digit))))) (lead ++ gs)).
  { apply MAltR. constructor; [apply reprange_digits; assumption | apply groups_match; exact Hg]. }
  split; apply matchb_correct; unfold number_pattern.
  - rewrite <- (app_nil_r (lead ++ gs)). constructor; [exact Hint | apply MAltL; constructor].
  - rewrite app_assoc. constructor; [exact Hint|]. apply MAltR. change (d :: frac) with ([d] ++ frac).
    constructor; [apply sep_matches; exact Hd | apply MAltL; apply star_digits; exact Hf].
Qed.

(* non-vacuity *)
Example ex_us : matchb (number_pattern [44; 32] [46] 3 3) [49; 44; 50; 51; 52; 46; 53] = true. Proof. vm_compute. reflexivity. Qed.
Example ex_merge :
  map text (merge_number_blocks (mkctx [44; 32] [46] true None None) [mn [49] 0; mo [44] false 1; mn [50; 51; 52] 2; mo [43] false 3; mn [53] 4])
  = [[49; 44; 50; 51; 52]; [43]; [53]].
Proof. vm_compute. reflexivity. Qed.
