(* C10 / C14 proofs: a guarded slot always answers with what a fresh load of the key asked for gives, after ANY history
   of checks, including failed loads; an unguarded slot does so as long as no load fails, and the refutation shows what
   happens otherwise. *)
From MC Require Import Lib.Base Model.Caches.
Local Open Scope N_scope.

Section Proofs.
  Variable V : Type.
  Variable load : str -> option V.

  Lemma empty_inv : slot_inv load empty_slot.
  Proof. intros k v H. discriminate. Qed.

  Lemma check_inv : forall guard s k, slot_inv load s -> slot_inv load (fst (fst (check load guard s k))).
  Proof.
    intros guard s k Hi. unfold check. destruct (needs_reload guard s k); [|exact Hi].
    destruct (load k) as [v|] eqn:L; cbn [fst].
    - intros k' v' Hk Hv. cbn in Hk, Hv. inversion Hk; inversion Hv; subst. exact L.
    - intros k' v' Hk Hv. cbn in Hv. discriminate.
  Qed.

  (* guarded: the answer is the fresh load, whatever happened before *)
  Theorem L_guarded_answer_is_fresh : forall s k, slot_inv load s -> snd (fst (check load true s k)) = load k.
  Proof.
    intros s k Hi. unfold check, needs_reload. destruct (s_key s) as [k'|] eqn:K.
    - destruct (str_eqb k k') eqn:E.
      + apply str_eqb_eq in E. subst k'. destruct (s_val s) as [v|] eqn:Vv; cbn [negb orb andb fst snd].
        * symmetry. exact (Hi _ _ K Vv).
        * destruct (load k); reflexivity.
      + cbn [negb orb]. destruct (load k); reflexivity.
    - destruct (load k); reflexivity.
  Qed.

  (* unguarded: the same, provided the recorded value is not empty (no load has failed since the key was recorded) *)
  Theorem L_unguarded_answer_is_fresh : forall s k, slot_inv load s -> (s_key s <> None -> s_val s <> None) ->
    snd (fst (check load false s k)) = load k.
  Proof.
    intros s k Hi Hne. unfold check, needs_reload. destruct (s_key s) as [k'|] eqn:K.
    - destruct (str_eqb k k') eqn:E.
      + apply str_eqb_eq in E. subst k'. destruct (s_val s) as [v|] eqn:Vv; cbn [negb orb andb fst snd].
        * symmetry. exact (Hi _ _ K Vv).
        * exfalso. apply Hne; [discriminate | reflexivity].
      + cbn [negb orb]. destruct (load k); reflexivity.
    - destruct (load k); reflexivity.
  Qed.

  (* every answer of a whole history of checks on a guarded slot, starting from anywhere consistent *)
  Theorem L_history_answers_are_fresh : forall ks s, slot_inv load s ->
    map fst (snd (run load true s ks)) = map load ks.
  Proof.
    induction ks as [|k r IH]; intros s Hi; [reflexivity|]. cbn [run].
    pose proof (L_guarded_answer_is_fresh s k Hi) as A. pose proof (check_inv true s k Hi) as I1.
    destruct (check load true s k) as [[s1 v] b]. cbn [fst snd] in A, I1. specialize (IH s1 I1).
    destruct (run load true s1 r) as [s2 out]. cbn [snd map fst] in *. rewrite A, IH. reflexivity.
  Qed.

  (* a check never reloads for the key it has a value for: asking twice costs one load *)
  Theorem L_second_check_is_free : forall guard s k v, fst (check load guard s k) = (Slot (Some k) (Some v), Some v) ->
    check load guard (Slot (Some k) (Some v)) k = (Slot (Some k) (Some v), Some v, false).
  Proof.
    intros guard s k v _. unfold check, needs_reload. cbn [s_key s_val]. rewrite str_eqb_refl. destruct guard; reflexivity.
  Qed.
End Proofs.

(* the unguarded slot after a failed load: going back to the key it has recorded gives the EMPTY value, not the fresh
   load (the short Unicode tables under CheckRuleFiles other than All) *)
Definition demo_load (k : str) : option N := match k with [1] => Some 1 | [3] => Some 3 | _ => None end.
Lemma L_unguarded_stale_after_failure :
  let '(s1, _, _) := check demo_load false empty_slot [1] in       (* load file 1: fine *)
  let '(s2, v2, _) := check demo_load false s1 [2] in              (* switch to file 2: unreadable *)
  let '(_, v3, _) := check demo_load false s2 [1] in               (* back to file 1 *)
  v2 = None /\ v3 = None /\ demo_load [1] = Some 1.
Proof. vm_compute. auto. Qed.
