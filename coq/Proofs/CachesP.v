(* C10 / C14 proofs: a slot always answers with what a fresh load of the key asked for gives, after ANY history of
   checks, including failed loads, with or without the emptiness guard; the variant that keeps the record of the
   previous load after a failure does not (refutation). *)
From MC Require Import Lib.Base Model.Caches.
Local Open Scope N_scope.

Section Proofs.
  Variable V : Type.
  Variable load : str -> option V.

  Lemma empty_inv : slot_inv load empty_slot.
  Proof. reflexivity. Qed.

  Lemma check_inv : forall guard s k, slot_inv load s -> slot_inv load (fst (fst (check load guard s k))).
  Proof.
    intros guard s k Hi. unfold check. destruct (needs_reload guard s k); [|exact Hi].
    destruct (load k) as [v|] eqn:L; cbn [fst].
    - unfold slot_inv. cbn [s_key s_val]. exists v. split; [reflexivity | exact L].
    - reflexivity.
  Qed.

  (* the answer is the fresh load, whatever happened before *)
  Theorem L_answer_is_fresh : forall guard s k, slot_inv load s -> snd (fst (check load guard s k)) = load k.
  Proof.
    intros guard s k Hi. unfold check, needs_reload. unfold slot_inv in Hi. destruct (s_key s) as [k'|] eqn:K.
    - destruct Hi as [v [Hv Hl]]. rewrite Hv. destruct (str_eqb k k') eqn:E.
      + apply str_eqb_eq in E. subst k'. rewrite Bool.andb_false_r. cbn [negb orb fst snd]. symmetry. exact Hl.
      + cbn [negb orb]. destruct (load k); reflexivity.
    - destruct (load k); reflexivity.
  Qed.

  (* every answer of a whole history of checks, starting from anywhere consistent *)
  Theorem L_history_answers_are_fresh : forall guard ks s, slot_inv load s ->
    map fst (snd (run load guard s ks)) = map load ks.
  Proof.
    intros guard. induction ks as [|k r IH]; intros s Hi; [reflexivity|]. cbn [run].
    pose proof (L_answer_is_fresh guard s k Hi) as A. pose proof (check_inv guard s k Hi) as I1.
    destruct (check load guard s k) as [[s1 v] b]. cbn [fst snd] in A, I1. specialize (IH s1 I1).
    destruct (run load guard s1 r) as [s2 out]. cbn [snd map fst] in *. rewrite A, IH. reflexivity.
  Qed.

  (* a check never reloads for the key it has a value for: asking twice costs one load *)
  Theorem L_second_check_is_free : forall guard s k v, fst (check load guard s k) = (Slot (Some k) (Some v), Some v) ->
    check load guard (Slot (Some k) (Some v)) k = (Slot (Some k) (Some v), Some v, false).
  Proof.
    intros guard s k v _. unfold check, needs_reload. cbn [s_key s_val]. rewrite str_eqb_refl. destruct guard; reflexivity.
  Qed.

  (* a failed load is retried: after an answer None the next check loads again, whatever it is asked for *)
  Theorem L_failure_is_retried : forall guard s k, slot_inv load s -> snd (fst (check load guard s k)) = None ->
    forall k', snd (check load guard (fst (fst (check load guard s k))) k') = true.
  Proof.
    intros guard s k Hi Hn k'. unfold check in *. destruct (needs_reload guard s k) eqn:R.
    - destruct (load k) as [v|]; [discriminate|]. cbn [fst snd]. unfold needs_reload. cbn [s_key empty_slot].
      destruct (load k'); reflexivity.
    - cbn [fst snd] in *. unfold slot_inv in Hi. unfold needs_reload in *. destruct (s_key s) as [k0|]; [|discriminate].
      destruct Hi as [v [Hv _]]. rewrite Hv in Hn. discriminate.
  Qed.
End Proofs.

(* the variant that keeps the record after a failed load, without the emptiness guard: going back to the key on record
   gives the EMPTY value, not the fresh load *)
Definition demo_load (k : str) : option N := match k with [1] => Some 1 | [3] => Some 3 | _ => None end.
Lemma L_kept_record_is_stale :
  let '(s1, _, _) := check_keep demo_load false empty_slot [1] in       (* load file 1: fine *)
  let '(s2, v2, _) := check_keep demo_load false s1 [2] in              (* switch to file 2: unreadable *)
  let '(_, v3, _) := check_keep demo_load false s2 [1] in               (* back to file 1 *)
  v2 = None /\ v3 = None /\ demo_load [1] = Some 1.
Proof. vm_compute. auto. Qed.
