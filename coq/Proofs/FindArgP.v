(* find_arg returns the first element the reference can see, and nothing when it can see none *)
From MC Require Import Lib.Base Model.FindArg.
Local Open Scope N_scope.

Section Ind.
  Variable P : atree -> Prop.
  Hypothesis H : forall a i k l, Forall P k -> P (AT a i k l).
  Fixpoint atree_ind' (t : atree) : P t :=
    match t with
    | AT a i k l => H a i k l ((fix go (ks : list atree) : Forall P ks :=
                                 match ks with [] => Forall_nil P | c :: r => Forall_cons c (atree_ind' c) (go r) end) k)
    end.
End Ind.

Lemma go_find_eq name ks :
  (fix go (ks : list atree) : option N :=
     match ks with [] => None | k :: ks' => match find name k false true with Some r => Some r | None => go ks' end end) ks =
  hd_error (flat_map (fun k => match find name k false true with Some r => [r] | None => [] end) ks).
Proof. induction ks as [|k ks IH]; [reflexivity|]. cbn [flat_map]. destruct (find name k false true); [reflexivity|exact IH]. Qed.

Lemma go_visible_eq name ks :
  (fix go (ks : list atree) : list N := match ks with [] => [] | k :: ks' => visible name k ++ go ks' end) ks = flat_map (visible name) ks.
Proof. induction ks as [|k ks IH]; [reflexivity|]. cbn [flat_map]. rewrite IH. reflexivity. Qed.

Lemma hd_error_app {A} (a b : list A) : hd_error (a ++ b) = match hd_error a with Some x => Some x | None => hd_error b end.
Proof. destruct a; reflexivity. Qed.

Lemma hd_flat name ks :
  Forall (fun k => find name k false true = hd_error (visible name k)) ks ->
  hd_error (flat_map (fun k => match find name k false true with Some r => [r] | None => [] end) ks) = hd_error (flat_map (visible name) ks).
Proof.
  induction 1 as [|k ks Hk _ IH]; [reflexivity|]. cbn [flat_map]. rewrite !hd_error_app, Hk.
  destruct (hd_error (visible name k)); [reflexivity|exact IH].
Qed.

(* inside the walk (skip_self = false, no_check_inside = true) *)
Lemma L_find_inner : forall name t, find name t false true = hd_error (visible name t).
Proof.
  intros name. apply (atree_ind' (fun t => find name t false true = hd_error (visible name t))).
  intros a i k l IH. cbn [find visible negb andb].
  destruct (arg_is name a) eqn:Ea; [reflexivity|].
  destruct a as [n|]; [reflexivity|]. cbn [andb]. destruct i; [reflexivity|].
  rewrite go_find_eq, go_visible_eq. apply hd_flat. exact IH.
Qed.

(* the reference of an intent: the first element it can see among the descendants of the element that carries it --
   the element's own arg and intent do not count *)
Theorem L_resolve_is_first_visible : forall name t, resolve name t = hd_error (visible_from name t).
Proof.
  intros name [a i k l]. unfold resolve, visible_from. cbn [find negb andb a_kids].
  rewrite go_find_eq. apply hd_flat. apply Forall_forall. intros x _. apply L_find_inner.
Qed.

(* ... hence: nothing is found inside an element that carries an intent or another arg *)
Theorem L_hidden_by_intent : forall name a k l, arg_is name a = false -> visible name (AT a true k l) = [].
Proof. intros name a k l H. cbn [visible]. rewrite H. destruct a; reflexivity. Qed.
Theorem L_hidden_by_other_arg : forall name n i k l, (n =? name) = false -> visible name (AT (Some n) i k l) = [].
Proof. intros name n i k l H. cbn [visible arg_is]. rewrite H. reflexivity. Qed.

(* what is found carries the name *)
Fixpoint labels_with (name : N) (t : atree) : list N :=
  match t with
  | AT a i kids l => (if arg_is name a then [l] else []) ++
                     (fix go (ks : list atree) : list N := match ks with [] => [] | k :: ks' => labels_with name k ++ go ks' end) kids
  end.
Lemma go_labels_eq name ks :
  (fix go (ks : list atree) : list N := match ks with [] => [] | k :: ks' => labels_with name k ++ go ks' end) ks = flat_map (labels_with name) ks.
Proof. induction ks as [|k ks IH]; [reflexivity|]. cbn [flat_map]. rewrite IH. reflexivity. Qed.

Lemma visible_sub : forall name t x, In x (visible name t) -> In x (labels_with name t).
Proof.
  intros name. apply (atree_ind' (fun t => forall x, In x (visible name t) -> In x (labels_with name t))).
  intros a i k l IH x Hx. cbn [visible labels_with] in *.
  destruct (arg_is name a); [apply in_or_app; left; exact Hx|]. cbn [app].
  destruct a; [destruct Hx|]. destruct i; [destruct Hx|].
  rewrite go_visible_eq in Hx. rewrite go_labels_eq. apply in_flat_map in Hx. destruct Hx as [c [Hc Hx]].
  apply in_flat_map. exists c. split; [exact Hc|]. rewrite Forall_forall in IH. apply (IH c Hc x Hx).
Qed.

Theorem L_resolved_carries_the_name : forall name t r, resolve name t = Some r -> In r (flat_map (labels_with name) (a_kids t)).
Proof.
  intros name t r H. rewrite L_resolve_is_first_visible in H. unfold visible_from in H.
  assert (Hin : In r (flat_map (visible name) (a_kids t))).
  { destruct (flat_map (visible name) (a_kids t)); [discriminate|]. inversion H; subst. left; reflexivity. }
  apply in_flat_map in Hin. destruct Hin as [c [Hc Hx]]. apply in_flat_map. exists c. split; [exact Hc|apply visible_sub; exact Hx].
Qed.
