(* C17 (entity part): lemmas about the substitution model and finite obligations over the generated tables. *)
From MC Require Import Lib.Base Gen.Entities Gen.RefEntities Model.Prep.
Local Open Scope N_scope.

(* ---------- finite obligations ---------- *)
Definition class_excludes_delims_b : bool := negb (in_class AMP) && negb (in_class SEMI) && negb (in_class 35) && negb (in_class 60).
Lemma class_excludes_delims_ok : class_excludes_delims_b = true.
Proof. vm_compute. reflexivity. Qed.

Definition name_ok (e : str * str) : bool :=
  match fst e with [] => false | _ => forallb in_class (fst e) end.
Lemma names_in_class_ok : forallb name_ok entities = true.
Proof. vm_compute. reflexivity. Qed.

(* a replacement text is XML-safe: no '<', and every '&' starts a numeric character reference *)
Definition value_safe (e : str * str) : bool :=
  negb (memN 60 (snd e)) && match xml_decode (snd e) with Some _ => true | None => false end.
Lemma values_safe_ok : forallb value_safe entities = true.
Proof. vm_compute. reflexivity. Qed.

(* the table means what the HTML5/W3C reference says; documented deviation: a leading space before a
   combining mark (so that the mark has something to sit on) *)
Definition agrees_with_ref (e : str * str) : bool :=
  match lookupS (fst e) ref_entities, xml_decode (snd e) with
  | Some r, Some m => str_eqb m r || str_eqb m (32 :: r)
  | _, _ => false
  end.
Lemma entities_agree_ok : forallb agrees_with_ref entities = true.
Proof. vm_compute. reflexivity. Qed.

Definition ref_known (e : str * str) : bool :=
  match lookupS (fst e) entities with Some _ => true | None => false end.
Lemma ref_complete_ok : forallb ref_known ref_entities = true.
Proof. vm_compute. reflexivity. Qed.

(* ---------- structure of the model ---------- *)
Lemma amp_not_class : in_class AMP = false.
Proof. vm_compute. reflexivity. Qed.
Lemma semi_not_class : in_class SEMI = false.
Proof. vm_compute. reflexivity. Qed.
Lemma hash_not_class : in_class 35 = false.
Proof. vm_compute. reflexivity. Qed.

(* precise version, by cases on whether [a] has an '&' *)
Lemma split_amp_app : forall a b,
  split_amp (a ++ AMP :: b) =
  match snd (split_amp a) with
  | [] => (fst (split_amp a), fst (split_amp b) :: snd (split_amp b))
  | _ => (fst (split_amp a), snd (split_amp a) ++ fst (split_amp b) :: snd (split_amp b))
  end.
Proof.
  induction a as [|c a IH]; intro b.
  - cbn [app split_amp]. destruct (split_amp b) as [h segs]. change (AMP =? AMP) with true. cbn. reflexivity.
  - cbn [app]. cbn [split_amp]. rewrite IH. destruct (split_amp a) as [ha sa]. destruct (split_amp b) as [hb sb].
    cbn [fst snd]. destruct sa as [|s0 sa']; destruct (c =? AMP); cbn [fst snd app]; reflexivity.
Qed.

Lemma subst_app_amp : forall a b,
  subst_entities (a ++ AMP :: b) =
  (fst (subst_entities a) ++ fst (subst_entities (AMP :: b)), snd (subst_entities a) ++ snd (subst_entities (AMP :: b))).
Proof.
  intros a b. unfold subst_entities. rewrite split_amp_app. cbn [split_amp]. change (AMP =? AMP) with true.
  destruct (split_amp a) as [ha sa]. destruct (split_amp b) as [hb sb]. cbn [fst snd].
  destruct sa as [|s0 sa'].
  - cbn [map concat fst snd app]. rewrite app_nil_r. reflexivity.
  - cbn [fst snd]. rewrite !map_app, !concat_app. cbn [map concat app fst snd]. rewrite <- !app_assoc. reflexivity.
Qed.

Lemma take_class_name : forall nm rest, forallb in_class nm = true ->
  (match rest with [] => True | c :: _ => in_class c = false end) ->
  take_class (nm ++ rest) = (nm, rest).
Proof.
  induction nm as [|c nm IH]; intros rest Hn Hr.
  - cbn [app]. destruct rest as [|c r]; [reflexivity|]. cbn [take_class]. rewrite Hr. reflexivity.
  - cbn [forallb] in Hn. apply andb_true_iff in Hn. destruct Hn as [Hc Hn]. cbn [app take_class]. rewrite Hc.
    rewrite (IH rest Hn Hr). reflexivity.
Qed.

Lemma match_entity_name : forall nm post, nm <> [] -> forallb in_class nm = true ->
  match_entity (nm ++ SEMI :: post) = Some (nm, post).
Proof.
  intros nm post Hne Hn. unfold match_entity. rewrite (take_class_name nm (SEMI :: post) Hn semi_not_class).
  destruct nm as [|c nm]; [congruence|]. rewrite N.eqb_refl. reflexivity.
Qed.

Lemma split_amp_head_amp : forall s, split_amp (AMP :: s) = ([], fst (split_amp s) :: snd (split_amp s)).
Proof. intro s. cbn [split_amp]. destruct (split_amp s). change (AMP =? AMP) with true. reflexivity. Qed.

(* the first '&'-piece of  nm;post  is  nm;(post up to its first '&') *)
Lemma split_amp_name : forall nm post, forallb in_class nm = true ->
  split_amp (nm ++ SEMI :: post) = (nm ++ SEMI :: fst (split_amp post), snd (split_amp post)).
Proof.
  induction nm as [|c nm IH]; intros post Hn.
  - cbn [app split_amp]. destruct (split_amp post). change (SEMI =? AMP) with false. reflexivity.
  - cbn [forallb] in Hn. apply andb_true_iff in Hn. destruct Hn as [Hc Hn]. cbn [app split_amp].
    rewrite (IH post Hn). destruct (c =? AMP) eqn:E.
    + apply N.eqb_eq in E. subst c. rewrite amp_not_class in Hc. discriminate.
    + reflexivity.
Qed.

Lemma subst_known_head : forall nm v post, nm <> [] -> forallb in_class nm = true -> lookupS nm entities = Some v ->
  subst_entities (AMP :: nm ++ SEMI :: post) = (v ++ fst (subst_entities post), snd (subst_entities post)).
Proof.
  intros nm v post Hne Hn Hl. unfold subst_entities. rewrite split_amp_head_amp, (split_amp_name nm post Hn).
  destruct (split_amp post) as [hp sp]. cbn [fst snd map concat app].
  unfold seg_subst at 1 3. rewrite (match_entity_name nm hp Hne Hn), Hl. cbn [fst snd app].
  rewrite <- app_assoc. reflexivity.
Qed.

Lemma subst_unknown_head : forall nm post, nm <> [] -> forallb in_class nm = true -> lookupS nm entities = None ->
  snd (subst_entities (AMP :: nm ++ SEMI :: post)) = nm :: snd (subst_entities post).
Proof.
  intros nm post Hne Hn Hl. unfold subst_entities. rewrite split_amp_head_amp, (split_amp_name nm post Hn).
  destruct (split_amp post) as [hp sp]. cbn [fst snd map concat app].
  unfold seg_subst at 1. rewrite (match_entity_name nm hp Hne Hn), Hl. cbn [fst snd app]. reflexivity.
Qed.

(* a numeric character reference is never touched:  '#' is not in CLASS *)
Lemma subst_hash_head : forall rest,
  subst_entities (AMP :: 35 :: rest) = (AMP :: 35 :: fst (subst_entities rest), snd (subst_entities rest)).
Proof.
  intro rest. unfold subst_entities. rewrite split_amp_head_amp. cbn [split_amp].
  destruct (split_amp rest) as [hp sp]. change (35 =? AMP) with false. cbn [fst snd map concat app].
  unfold seg_subst at 1 3. unfold match_entity. cbn [take_class]. rewrite hash_not_class. cbn [fst snd app]. reflexivity.
Qed.

Lemma subst_no_amp : forall s, memN AMP s = false -> subst_entities s = (s, []).
Proof.
  intros s H. unfold subst_entities.
  assert (Hs : split_amp s = (s, [])).
  { induction s as [|c s IH]; [reflexivity|]. cbn [split_amp]. unfold memN in H. cbn [existsb] in H.
    apply orb_false_iff in H. destruct H as [H1 H2]. rewrite (IH H2). rewrite N.eqb_sym, H1. reflexivity. }
  rewrite Hs. cbn. rewrite app_nil_r. reflexivity.
Qed.

(* ---------- the theorems ---------- *)
Lemma L_entity_in_any_context : forall pre post nm v, lookupS nm entities = Some v ->
  subst_entities (pre ++ AMP :: nm ++ SEMI :: post) =
  (fst (subst_entities pre) ++ v ++ fst (subst_entities post), snd (subst_entities pre) ++ snd (subst_entities post)).
Proof.
  intros pre post nm v Hl. rewrite subst_app_amp.
  pose proof (forallb_In name_ok entities (nm, v) names_in_class_ok (lookupS_In _ _ _ Hl)) as Hok.
  unfold name_ok in Hok. cbn [fst] in Hok.
  assert (Hne : nm <> []) by (intro E; rewrite E in Hok; discriminate).
  assert (Hcl : forallb in_class nm = true) by (destruct nm; [discriminate | exact Hok]).
  rewrite (subst_known_head nm v post Hne Hcl Hl). cbn [fst snd]. reflexivity.
Qed.

Lemma L_numeric_ref_untouched : forall pre rest,
  subst_entities (pre ++ AMP :: 35 :: rest) =
  (fst (subst_entities pre) ++ AMP :: 35 :: fst (subst_entities rest), snd (subst_entities pre) ++ snd (subst_entities rest)).
Proof. intros pre rest. rewrite subst_app_amp, subst_hash_head. reflexivity. Qed.

Lemma L_unknown_entity_err : forall pre post nm, nm <> [] -> forallb in_class nm = true -> lookupS nm entities = None ->
  snd (subst_entities (pre ++ AMP :: nm ++ SEMI :: post)) <> [].
Proof.
  intros pre post nm Hne Hn Hl. rewrite subst_app_amp. cbn [snd]. rewrite (subst_unknown_head nm post Hne Hn Hl).
  intro H. apply app_eq_nil in H. destruct H as [_ H]. discriminate.
Qed.

Lemma L_entities_agree : forall nm v, lookupS nm entities = Some v ->
  exists r m, lookupS nm ref_entities = Some r /\ xml_decode v = Some m /\ (m = r \/ m = 32 :: r).
Proof.
  intros nm v Hl. pose proof (forallb_In agrees_with_ref entities (nm, v) entities_agree_ok (lookupS_In _ _ _ Hl)) as H.
  unfold agrees_with_ref in H. cbn [fst snd] in H.
  destruct (lookupS nm ref_entities) as [r|]; [|discriminate]. destruct (xml_decode v) as [m|]; [|discriminate].
  exists r, m. split; [reflexivity|]. split; [reflexivity|]. apply orb_true_iff in H.
  destruct H as [H|H]; apply str_eqb_eq in H; [left|right]; exact H.
Qed.

Lemma L_ref_complete : forall nm r, In (nm, r) ref_entities -> exists v, lookupS nm entities = Some v.
Proof.
  intros nm r Hin. pose proof (forallb_In ref_known ref_entities (nm, r) ref_complete_ok Hin) as H.
  unfold ref_known in H. cbn [fst] in H. destruct (lookupS nm entities) as [v|]; [exists v; reflexivity | discriminate].
Qed.

Lemma L_values_xml_safe : forall nm v, lookupS nm entities = Some v ->
  ~ In 60 v /\ exists m, xml_decode v = Some m.
Proof.
  intros nm v Hl. pose proof (forallb_In value_safe entities (nm, v) values_safe_ok (lookupS_In _ _ _ Hl)) as H.
  unfold value_safe in H. cbn [snd] in H. apply andb_true_iff in H. destruct H as [H1 H2]. split.
  - intro Hin. apply memN_In in Hin. rewrite Hin in H1. discriminate.
  - destruct (xml_decode v) as [m|]; [exists m; reflexivity | discriminate].
Qed.

Lemma L_plain_text_untouched : forall s, memN AMP s = false -> subst_entities s = (s, []).
Proof. exact subst_no_amp. Qed.

From Coq Require Import String.
Local Open Scope string_scope.
Example entity_table_size : Nat.ltb 2000 (List.length entities) = true. Proof. vm_compute. reflexivity. Qed.
Example ex_known : prep_text (Base.S "a&alpha;b") = Text [97; 945; 98]. Proof. vm_compute. reflexivity. Qed.
Example ex_lt : prep_text (Base.S "a&lt;b") = Text [97; 60; 98]. Proof. vm_compute. reflexivity. Qed.
Example ex_unknown : prep_text (Base.S "a&nosuchname;b") = UnknownEntity [Base.S "nosuchname"]. Proof. vm_compute. reflexivity. Qed.
