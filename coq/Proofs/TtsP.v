(* C13: proofs about the TTS model. *)
From MC Require Import Lib.Base Gen.TtsTabs Model.Tts.
From Coq Require Import String.
Local Close Scope string_scope.
Local Open Scope N_scope.

(* ---------- finite obligations over the generated tag table ---------- *)
Definition row_checks (r : N * N * list sym * list sym) : bool :=
  match r with (e, c, st, en) =>
    row_ok st en && row_in_vocab e st &&
    match parse_start st with
    | Some (SWrap n _ _) => match end_name en with Some n' => str_eqb n n' | None => false end
    | _ => true
    end
  end.
Lemma rows_ok : forallb row_checks tag_table = true.
Proof. vm_compute. reflexivity. Qed.

(* which commands are empty elements: exactly pause (0) and bookmark (9); the text a start template carries after
   its tag is exactly the spelled string (spell, 7) or the pronounce text (pronounce, 8), nothing otherwise *)
Definition lead_expected (c : N) : list sym := if c =? 7 then [H 1] else if c =? 8 then [H 2] else [].
Definition row_roles (r : N * N * list sym * list sym) : bool :=
  match r with (e, c, st, en) =>
    match parse_start st with
    | Some (SEmpty _ _) => (c =? 0) || (c =? 9)
    | Some (SWrap _ _ lead) => negb ((c =? 0) || (c =? 9)) && sym_eqb lead (lead_expected c)
    | Some SNone => negb ((c =? 0) || (c =? 9))
    | None => false
    end
  end.
Lemma roles_ok : forallb row_roles tag_table = true.
Proof. vm_compute. reflexivity. Qed.

(* every engine/command pair of the two markup engines has a row *)
Definition all_rows_present : bool :=
  forallb (fun e => forallb (fun c => match lookup_row e c with Some _ => true | None => false end)
                            [0;1;2;3;4;5;6;7;8;9]) [1;2].
Lemma rows_present_ok : all_rows_present = true.
Proof. vm_compute. reflexivity. Qed.

(* ---------- lookup_row gives a table member ---------- *)
Lemma lookup_row_In : forall e c st en, lookup_row e c = Some (st, en) -> In (e, c, st, en) tag_table.
Proof.
  intros e c st en. unfold lookup_row. induction tag_table as [|[[[e' c'] st'] en'] l IH]; [discriminate|].
  destruct ((e =? e') && (c =? c')) eqn:E.
  - intro H. inversion H; subst. apply andb_true_iff in E. destruct E as [E1 E2].
    apply N.eqb_eq in E1. apply N.eqb_eq in E2. subst. left. reflexivity.
  - intro H. right. apply IH. exact H.
Qed.

Lemma wrap_closes : forall e c st en n a l, lookup_row e c = Some (st, en) -> parse_start st = Some (SWrap n a l) ->
  end_name en = Some n.
Proof.
  intros e c st en n a l Hl Hp. pose proof (forallb_In row_checks tag_table _ rows_ok (lookup_row_In _ _ _ _ Hl)) as H.
  unfold row_checks in H. rewrite Hp in H. apply andb_true_iff in H. destruct H as [_ H].
  destruct (end_name en) as [n'|]; [|discriminate]. apply str_eqb_eq in H. subst. reflexivity.
Qed.

(* ---------- induction principle for derivations (nested lists) ---------- *)
Section DerivInd.
  Variable P : deriv -> Prop.
  Hypothesis HTxt : forall s, P (Txt s).
  Hypothesis HSeq : forall ds, Forall P ds -> P (Seq ds).
  Hypothesis HTts : forall c n l d, P d -> P (Tts c n l d).
  Hypothesis HMark : forall id, P (Mark id).
  Fixpoint deriv_ind' (d : deriv) : P d :=
    match d with
    | Txt s => HTxt s
    | Seq ds => HSeq ds ((fix go (l : list deriv) : Forall P l :=
                            match l with [] => Forall_nil P | x :: t => Forall_cons x (deriv_ind' x) (go t) end) ds)
    | Tts c n l d' => HTts c n l d' (deriv_ind' d')
    | Mark id => HMark id
    end.
End DerivInd.

Definition emit_list (e : N) (ds : list deriv) : list tok :=
  (fix go (l : list deriv) := match l with [] => [] | x :: t => emit e x ++ go t end) ds.
Lemma emit_seq : forall e ds, emit e (Seq ds) = emit_list e ds.
Proof. reflexivity. Qed.
Lemma emit_list_cons : forall e x t, emit_list e (x :: t) = emit e x ++ emit_list e t.
Proof. reflexivity. Qed.

(* ---------- well-nestedness of every emitted token sequence ---------- *)
Lemma bal_emit : forall e d stk rest, bal stk (emit e d ++ rest) = bal stk rest.
Proof.
  intros e d. induction d as [s | ds IH | c neutral lead inner IH | id] using deriv_ind'; intros stk rest.
  - reflexivity.
  - rewrite emit_seq. induction IH as [|x t Hx Ht IHt]; [reflexivity|].
    rewrite emit_list_cons, <- app_assoc, Hx. exact IHt.
  - cbn [emit]. destruct neutral; [apply IH|].
    destruct (lookup_row e c) as [[st en]|] eqn:El; [|cbn [app bal]; apply IH].
    destruct (parse_start st) as [[|n a l|n a]|] eqn:Ep; try (cbn [app bal]; apply IH).
    rewrite (wrap_closes e c st en n a l El Ep). cbn [app bal]. rewrite <- app_assoc, IH. cbn [app bal].
    rewrite str_eqb_refl. reflexivity.
  - cbn [emit]. destruct (lookup_row e CMD_BOOKMARK) as [[st en]|]; [|reflexivity].
    destruct (parse_start st) as [[|n a l|n a]|]; reflexivity.
Qed.

Lemma L_emit_well_nested : forall e d, balanced (emit e d) = true.
Proof. intros e d. unfold balanced. rewrite <- (app_nil_r (emit e d)), bal_emit. reflexivity. Qed.

(* ---------- tags never change the words ---------- *)
Definition nonempty_texts (l : list tok) : list str := filter (fun s => match s with [] => false | _ => true end) (texts l).

(* the derivation as the no-engine run sees it, pauses aside: a pause contributes no word *)
Fixpoint drop_pause_leads (d : deriv) : deriv :=
  match d with
  | Txt s => Txt s
  | Seq ds => Seq (map drop_pause_leads ds)
  | Tts c n lead inner => Tts c n (if (c =? 0) || (c =? 9) then [] else lead) (drop_pause_leads inner)
  | Mark id => Mark id
  end.

Lemma texts_app : forall a b, texts (a ++ b) = texts a ++ texts b.
Proof. intros a b. unfold texts. apply flat_map_app. Qed.
Lemma net_app : forall a b, nonempty_texts (a ++ b) = nonempty_texts a ++ nonempty_texts b.
Proof. intros a b. unfold nonempty_texts. rewrite texts_app, filter_app. reflexivity. Qed.

Lemma lookup0_none : forall c, lookup_row 0 c = None.
Proof.
  intro c. unfold lookup_row.
  assert (H : forallb (fun r => match r with (e, _, _, _) => negb (e =? 0) end) tag_table = true) by (vm_compute; reflexivity).
  induction tag_table as [|[[[e' c'] st'] en'] l IH]; [reflexivity|].
  cbn [forallb] in H. apply andb_true_iff in H. destruct H as [H1 H2].
  destruct (0 =? e') eqn:E; [rewrite N.eqb_sym in H1; rewrite E in H1; discriminate|]. cbn [andb]. apply IH. exact H2.
Qed.

Lemma roles_of : forall e c st en, lookup_row e c = Some (st, en) -> row_roles (e, c, st, en) = true.
Proof. intros e c st en Hl. exact (forallb_In row_roles tag_table _ roles_ok (lookup_row_In _ _ _ _ Hl)). Qed.

Lemma pause_rows_present : forall e c, e = 1 \/ e = 2 -> (c =? 0) || (c =? 9) = true -> lookup_row e c <> None.
Proof.
  intros e c He Hc. apply orb_true_iff in Hc.
  destruct He as [He|He], Hc as [Hc|Hc]; apply N.eqb_eq in Hc; subst; vm_compute; discriminate.
Qed.

Lemma L_strip_tags_words : forall e d, e = 1 \/ e = 2 ->
  nonempty_texts (emit e d) = nonempty_texts (emit 0 (drop_pause_leads d)).
Proof.
  intros e d He. induction d as [s | ds IH | c neutral lead inner IH | id] using deriv_ind'.
  - reflexivity.
  - cbn [drop_pause_leads]. rewrite !emit_seq. induction IH as [|x t Hx Ht IHt]; [reflexivity|].
    cbn [map]. rewrite !emit_list_cons, !net_app, Hx, IHt. reflexivity.
  - cbn [drop_pause_leads emit]. destruct neutral; [exact IH|]. rewrite lookup0_none.
    destruct (lookup_row e c) as [[st en]|] eqn:El.
    + pose proof (roles_of e c st en El) as Hr. unfold row_roles in Hr.
      destruct (parse_start st) as [[|n a l|n a]|] eqn:Ep; try discriminate.
      * destruct ((c =? 0) || (c =? 9)); [discriminate|].
        change (TText lead :: emit e inner) with ([TText lead] ++ emit e inner).
        change (TText lead :: emit 0 (drop_pause_leads inner)) with ([TText lead] ++ emit 0 (drop_pause_leads inner)).
        rewrite !net_app, IH. reflexivity.
      * apply andb_true_iff in Hr. destruct Hr as [Hr _]. destruct ((c =? 0) || (c =? 9)); [discriminate|].
        change ([TOpen n; TText lead] ++ emit e inner ++ match end_name en with Some n' => [TClose n'] | None => [] end)
          with ([TOpen n] ++ [TText lead] ++ emit e inner ++ match end_name en with Some n' => [TClose n'] | None => [] end).
        change (TText lead :: emit 0 (drop_pause_leads inner)) with ([TText lead] ++ emit 0 (drop_pause_leads inner)).
        rewrite !net_app, IH. destruct (end_name en); cbn; rewrite app_nil_r; reflexivity.
      * rewrite Hr. change (TEmptyTag n :: emit e inner) with ([TEmptyTag n] ++ emit e inner).
        change (TText [] :: emit 0 (drop_pause_leads inner)) with ([TText []] ++ emit 0 (drop_pause_leads inner)).
        rewrite !net_app, IH. reflexivity.
    + destruct ((c =? 0) || (c =? 9)) eqn:Ec.
      * exfalso. exact (pause_rows_present e c He Ec El).
      * change (TText lead :: emit e inner) with ([TText lead] ++ emit e inner).
        change (TText lead :: emit 0 (drop_pause_leads inner)) with ([TText lead] ++ emit 0 (drop_pause_leads inner)).
        rewrite !net_app, IH. reflexivity.
  - cbn [drop_pause_leads emit]. rewrite lookup0_none.
    destruct (lookup_row e CMD_BOOKMARK) as [[st en]|]; [|reflexivity].
    destruct (parse_start st) as [[|n a l|n a]|]; reflexivity.
Qed.

(* ---------- pause merging keeps nesting and words ---------- *)
Lemma bal_merge : forall p b l stk, bal stk (merge_toks p b l) = bal stk l.
Proof.
  intros p b l. revert b. induction l as [|t l IH]; intros b stk; [reflexivity|].
  destruct t as [n|n|n|s]; cbn [merge_toks].
  - cbn [bal]. apply IH.
  - cbn [bal]. destruct stk as [|m stk']; [reflexivity|]. rewrite IH. reflexivity.
  - destruct (str_eqb n p); [destruct b|]; cbn [bal]; apply IH.
  - destruct (b && blank s && next_is p l); cbn [bal]; apply IH.
Qed.

Lemma L_merge_pauses_preserves_balance : forall p l, balanced (merge_toks p false l) = balanced l.
Proof. intros p l. unfold balanced. apply bal_merge. Qed.

Definition nonblank_texts (l : list tok) : list str := filter (fun s => negb (blank s)) (texts l).
Lemma L_merge_pauses_keeps_words : forall p b l, nonblank_texts (merge_toks p b l) = nonblank_texts l.
Proof.
  intros p b l. revert b. induction l as [|t l IH]; intro b; [reflexivity|].
  destruct t as [n|n|n|s]; cbn [merge_toks].
  - unfold nonblank_texts, texts in *. cbn [flat_map app]. apply IH.
  - unfold nonblank_texts, texts in *. cbn [flat_map app]. apply IH.
  - destruct (str_eqb n p); [destruct b|]; unfold nonblank_texts, texts in *; cbn [flat_map app]; apply IH.
  - destruct (b && blank s && next_is p l) eqn:E.
    + apply andb_true_iff in E. destruct E as [E _]. apply andb_true_iff in E. destruct E as [_ E].
      unfold nonblank_texts, texts in *. cbn [flat_map app filter]. rewrite E. cbn [negb]. apply IH.
    + unfold nonblank_texts, texts in *. cbn [flat_map app filter]. rewrite IH. reflexivity.
Qed.

Lemma L_tag_tables_match : forall e c st en, In (e, c, st, en) tag_table ->
  row_ok st en = true /\ row_in_vocab e st = true.
Proof.
  intros e c st en Hin. pose proof (forallb_In row_checks tag_table _ rows_ok Hin) as H. unfold row_checks in H.
  apply andb_true_iff in H. destruct H as [H _]. apply andb_true_iff in H. exact H.
Qed.

(* numeric attribute values: `{number}unit` with unit one of "", %, db, ms *)
Definition unit_ok (u : list sym) : bool :=
  sym_eqb u [] || sym_eqb u [C 37] || sym_eqb u [C 100; C 98] || sym_eqb u [C 109; C 115].
Definition has_num_hole (v : list sym) : bool := existsb (fun s => match s with H k => k =? 0 | _ => false end) v.
Definition numeric_values_ok (st : list sym) : bool :=
  match parse_start st with
  | Some (SWrap _ attrs _) | Some (SEmpty _ attrs) =>
      forallb (fun a => if has_num_hole (snd a) then match snd a with H _ :: u => unit_ok u | _ => false end else true) attrs
  | Some SNone => true
  | None => false
  end.
Definition row_num (r : N * N * list sym * list sym) : bool := match r with (_, _, st, _) => numeric_values_ok st end.
Lemma num_rows_ok : forallb row_num tag_table = true.
Proof. vm_compute. reflexivity. Qed.
Lemma L_numeric_attr_values : forall e c st en, In (e, c, st, en) tag_table -> numeric_values_ok st = true.
Proof. intros e c st en Hin. exact (forallb_In row_num tag_table _ num_rows_ok Hin). Qed.

(* non-vacuity *)
Example ex_emit : emit 1 (Seq [Txt (S "x"%string); Tts 3 false [] (Txt (S "cap"%string)); Tts 0 false [44] (Txt []); Mark (S "id1"%string)])
  = [TText (S "x"%string); TOpen (S "prosody"%string); TText []; TText (S "cap"%string); TClose (S "prosody"%string);
     TEmptyTag (S "break"%string); TText []; TEmptyTag (S "mark"%string)].
Proof. vm_compute. reflexivity. Qed.

