(* C12: finite facts about the generated initial maps. *)
From MC Require Import Lib.Base Model.Prefs Proofs.PrefsP Gen.PrefsTabs.
Lemma L_init_wf : wf {| user := init_user; api := init_api |}.
Proof. unfold wf. cbn [user]. split; eexists; vm_compute; reflexivity. Qed.
Definition fl_known_b : bool :=
  forallb (fun n => match pref_lookup {| user := init_user; api := init_api |} n with Some _ => true | None => false end) float_names.
Lemma fl_known_ok : fl_known_b = true.
Proof. vm_compute. reflexivity. Qed.
Lemma L_float_names_known : forall n, In n float_names -> known {| user := init_user; api := init_api |} n.
Proof.
  intros n Hin. pose proof fl_known_ok as H. unfold fl_known_b in H. rewrite forallb_forall in H. specialize (H n Hin).
  unfold known. destruct (pref_lookup _ n); [discriminate | discriminate].
Qed.
