(* C02 proofs about the parser: it never changes the tag or the number of children of an element that is not an mrow,
   and a well-formed row has at least two children. *)
From MC Require Import Lib.Base Lib.Tree Gen.OpDict Model.ParserCore Model.Parser Model.ParserSpec Proofs.ParserP.
From Coq Require Import String.
Local Close Scope string_scope.
Local Open Scope N_scope.

Definition leafish (g : str) : bool :=
  str_eqb g s_mi || str_eqb g s_ms || str_eqb g s_mtext || str_eqb g s_mspace || str_eqb g s_mo || str_eqb g s_mn.

Theorem L_canon_keeps_arity : forall fuel parent idx t t', canon fuel parent idx t = Ok t' ->
  str_eqb (ptag t) s_mrow = false -> ptag t' = ptag t /\ List.length (pkids t') = List.length (pkids t) /\ pattrs t' = pattrs t.
Proof.
  intros fuel parent idx t t' H Hr. destruct fuel as [|fuel]; [discriminate|]. cbn [canon] in H.
  fold (leafish (ptag t)) in H. destruct (leafish (ptag t)).
  - inversion H; subst t'. unfold canon_leaf. destruct t as [a g at_ k x]. cbn [ptag pkids pattrs] in *.
    destruct (str_eqb g s_mo); [unfold plane1_leaf; cbn; auto|].
    destruct (str_eqb g s_mi || str_eqb g s_ms || str_eqb g s_mtext || str_eqb g s_mspace || str_eqb g s_mn); [unfold plane1_leaf; cbn; auto | cbn; auto].
  - rewrite Hr in H. apply bind_ok in H. destruct H as [ks [Hk H]]. inversion H; subst t'. destruct t as [a g at_ k x].
    cbn [set_kids ptag pkids pattrs] in *. split; [reflexivity|]. split; [|reflexivity]. clear H Hr.
    revert ks Hk. generalize 0%nat. induction k as [|c r IH]; intros i ks Hk.
    + inversion Hk; reflexivity.
    + apply bind_ok in Hk. destruct Hk as [c' [_ Hk]]. apply bind_ok in Hk. destruct Hk as [r' [Hr' Hk]].
      inversion Hk; subst. cbn [List.length]. f_equal. exact (IH _ _ Hr').
Qed.

Lemma rowr_okb_len : forall k, rowr_okb k = true -> (2 <= List.length k)%nat.
Proof. intros k H. unfold rowr_okb in H. destruct k as [|a [|b r]]; try discriminate. cbn [List.length]. lia. Qed.

Theorem L_row_ok_two_children : forall t, row_okb t = true -> (2 <= List.length (pkids t))%nat.
Proof. intros t H. unfold row_okb in H. apply rowr_okb_len in H. rewrite rev_length in H. exact H. Qed.
