(* C12: proofs about the preference state machine. *)
From MC Require Import Lib.Base Model.Prefs.
Local Open Scope N_scope.

Lemma str_eqb_sym : forall a b, str_eqb a b = str_eqb b a.
Proof.
  intros a b. destruct (str_eqb a b) eqn:E.
  - apply str_eqb_eq in E. subst. symmetry. apply str_eqb_refl.
  - destruct (str_eqb b a) eqn:E2; [|reflexivity]. apply str_eqb_eq in E2. subst. rewrite str_eqb_refl in E. discriminate.
Qed.

Lemma pget_premove_same : forall k m, pget k (premove k m) = None.
Proof.
  intros k m. induction m as [|[k' v] m IH]; [reflexivity|]. cbn [premove].
  destruct (str_eqb k k') eqn:E; [exact IH|]. cbn [pget]. rewrite E. exact IH.
Qed.
Lemma pget_premove_other : forall k k' m, str_eqb k k' = false -> pget k (premove k' m) = pget k m.
Proof.
  intros k k' m Hne. induction m as [|[k2 v] m IH]; [reflexivity|]. cbn [premove pget].
  destruct (str_eqb k' k2) eqn:E.
  - apply str_eqb_eq in E. subst k2. rewrite Hne. exact IH.
  - cbn [pget]. rewrite IH. reflexivity.
Qed.
Lemma pget_pset_same : forall k v m, pget k (pset k v m) = Some v.
Proof. intros. unfold pset. cbn [pget]. rewrite str_eqb_refl. reflexivity. Qed.
Lemma pget_pset_other : forall k k' v m, str_eqb k k' = false -> pget k (pset k' v m) = pget k m.
Proof. intros k k' v m H. unfold pset. cbn [pget]. rewrite H. apply pget_premove_other. exact H. Qed.

Section Proofs.
  Variable use_decimal_point : list str.
  Variable float_names : list str.
  Variable can_load : str -> str -> bool.
  Variable fmt_float : str -> option str.

  Notation set_pref := (set_preference use_decimal_point float_names can_load fmt_float).
  Notation set_str := (set_string_pref use_decimal_point can_load).
  Notation norm := (normalize float_names fmt_float).

  Lemma set_separators_other : forall lc u k,
    str_eqb k s_DecimalSeparators = false -> str_eqb k s_BlockSeparators = false ->
    pget k (set_separators use_decimal_point lc u) = pget k u.
  Proof.
    intros lc u k H1 H2. unfold set_separators.
    destruct (negb _); [reflexivity|]. destruct (_ && _); [reflexivity|].
    rewrite pget_pset_other by exact H2. rewrite pget_pset_other by exact H1. reflexivity.
  Qed.

  (* keys never disappear *)
  Definition has (k : str) (m : pmap) : Prop := pget k m <> None.
  Lemma has_pset : forall k k' v m, has k m -> has k (pset k' v m).
  Proof.
    intros k k' v m H. unfold has. destruct (str_eqb k k') eqn:E.
    - apply str_eqb_eq in E. subst. rewrite pget_pset_same. discriminate.
    - rewrite pget_pset_other by exact E. exact H.
  Qed.
  Lemma has_set_separators : forall k lc u, has k u -> has k (set_separators use_decimal_point lc u).
  Proof.
    intros k lc u H. unfold set_separators. destruct (negb _); [exact H|]. destruct (_ && _); [exact H|].
    apply has_pset. apply has_pset. exact H.
  Qed.

  (* ------------------------------------------------------------ set_string_pref *)
  Definition derived (n m : str) : bool :=
    ((str_eqb n s_Language || str_eqb n s_DecimalSeparator) && (str_eqb m s_DecimalSeparators || str_eqb m s_BlockSeparators))
    || (str_eqb n s_Language && str_eqb m s_LanguageAuto).

  Lemma reset_files_api : forall st k v a, reset_files can_load st k v = Some a ->
    a = api st \/ (str_eqb k s_Language = true /\ exists y, a = pset s_LanguageAuto y (api st)).
  Proof.
    intros st k v a. unfold reset_files. destruct (str_eqb k s_Language && str_eqb v s_Auto) eqn:E.
    - intro H. inversion H. right. apply andb_true_iff in E. destruct E as [E _]. split; [exact E|]. eexists. reflexivity.
    - destruct (_ || _); [destruct (can_load _ _)|]; intro H; inversion H; left; reflexivity.
  Qed.

  (* distinctness of the special names, by computation *)
  Lemma name_facts :
    str_eqb s_DecimalSeparator s_DecimalSeparators = false /\ str_eqb s_DecimalSeparator s_BlockSeparators = false /\
    str_eqb s_Language s_DecimalSeparators = false /\ str_eqb s_Language s_BlockSeparators = false /\
    str_eqb s_Language s_DecimalSeparator = false /\ str_eqb s_LanguageAuto s_Language = false /\
    str_eqb s_DecimalSeparator s_LanguageAuto = false.
  Proof. vm_compute. repeat split; reflexivity. Qed.

  Lemma eqb_trans_false : forall a b c, str_eqb a b = true -> str_eqb b c = false -> str_eqb a c = false.
  Proof. intros a b c H1 H2. apply str_eqb_eq in H1. subst. exact H2. Qed.

  (* ssp_user never reports an error; on success the key reads back and only derived names change *)
  Lemma ssp_user_ok : forall u a k v st', ssp_user use_decimal_point u a k v = (st', Ok) ->
    api st' = a /\ pget k (user st') = Some (YS v) /\
    (forall m, str_eqb m k = false -> derived k m = false -> pget m (user st') = pget m u) /\
    (forall m, has m u -> has m (user st')).
  Proof.
    intros u a k v st'. unfold ssp_user.
    destruct (pget s_DecimalSeparator u) as [dsv|]; [|intro H; inversion H].
    destruct (as_str dsv) as [cur|]; [|intro H; inversion H].
    destruct (lang_changed_of u k v) as [lc|] eqn:Elc; [|intro H; inversion H].
    cbn zeta. intro H. inversion H; subst st'; clear H. cbn [api user].
    destruct name_facts as [F1 [F2 [F3 [F4 [F5 [F6 F7]]]]]].
    destruct (str_eqb k s_DecimalSeparator && negb (str_eqb cur v) || str_eqb cur s_Auto && lc) eqn:Etrig.
    - (* separators recomputed: k is DecimalSeparator or Language *)
      assert (Hk : str_eqb k s_DecimalSeparator = true \/ str_eqb k s_Language = true).
      { apply orb_true_iff in Etrig. destruct Etrig as [E|E]; apply andb_true_iff in E; destruct E as [E1 E2].
        - left. exact E1.
        - right. unfold lang_changed_of in Elc. destruct (str_eqb k s_Language); [reflexivity|].
          inversion Elc; subst lc. discriminate. }
      assert (Hk1 : str_eqb k s_DecimalSeparators = false) by (destruct Hk as [Hk|Hk]; eapply eqb_trans_false; eauto).
      assert (Hk2 : str_eqb k s_BlockSeparators = false) by (destruct Hk as [Hk|Hk]; eapply eqb_trans_false; eauto).
      split; [reflexivity|]. split.
      + rewrite set_separators_other by assumption. apply pget_pset_same.
      + split.
        * intros m Hmk Hd. unfold derived in Hd. apply orb_false_iff in Hd. destruct Hd as [Hd _].
          assert (Hkk : str_eqb k s_Language || str_eqb k s_DecimalSeparator = true)
            by (destruct Hk as [Hk|Hk]; rewrite Hk; [apply orb_true_r | reflexivity]).
          rewrite Hkk in Hd. cbn [andb] in Hd. apply orb_false_iff in Hd. destruct Hd as [Hd1 Hd2].
          rewrite set_separators_other by assumption. apply pget_pset_other. exact Hmk.
        * intros m Hm. apply has_set_separators. apply has_pset. exact Hm.
    - split; [reflexivity|]. split; [apply pget_pset_same|]. split.
      + intros m Hmk _. apply pget_pset_other. exact Hmk.
      + intros m Hm. apply has_pset. exact Hm.
  Qed.

  Lemma ssp_user_not_err : forall u a k v st', ssp_user use_decimal_point u a k v <> (st', Err).
  Proof.
    intros u a k v st'. unfold ssp_user.
    destruct (pget s_DecimalSeparator u) as [dsv|]; [|intro H; inversion H].
    destruct (as_str dsv); [|intro H; inversion H].
    destruct (lang_changed_of u k v); intro H; inversion H.
  Qed.

  Lemma ssp_go_err_state : forall st k v iu ch st', ssp_go use_decimal_point can_load st k v iu ch = (st', Err) -> st' = st.
  Proof.
    intros st k v iu ch st'. unfold ssp_go.
    destruct (if ch then _ else _) as [a|]; [|intro H; inversion H; reflexivity].
    destruct iu; [intro H; exfalso; exact (ssp_user_not_err _ _ _ _ _ H) | intro H; inversion H].
  Qed.

  Lemma ssp_err_state : forall st k v st', set_str st k v = (st', Err) -> st' = st.
  Proof.
    intros st k v st'. unfold set_string_pref.
    destruct (pget k (api st)) as [v0|].
    - destruct (as_str v0) as [old|]; [|intro H; inversion H; reflexivity].
      destruct (str_eqb old v); apply ssp_go_err_state.
    - destruct (pget k (user st)) as [v0|]; [|intro H; inversion H; reflexivity].
      destruct (as_str v0) as [old|]; [|intro H; inversion H; reflexivity]. apply ssp_go_err_state.
  Qed.

  (* ------------------------------------------------------------ set_preference: errors leave everything as it was *)
  Lemma L_reject_leaves_state : forall st n v st', set_pref st n v = (st', Err) -> st' = st.
  Proof.
    intros st n v st'. unfold set_preference.
    destruct (if str_eqb n s_Language || str_eqb n s_LanguageAuto then clean_language v else Some v) as [v1|];
      [|intro H; inversion H; reflexivity].
    destruct (str_eqb n s_LanguageAuto && str_eqb v1 s_Auto); [intro H; inversion H; reflexivity|].
    destruct (str_eqb n s_LanguageAuto && negb _); [intro H; inversion H; reflexivity|].
    destruct (str_eqb (lower v1) s_true || str_eqb (lower v1) s_false).
    - destruct (is_boolean_pref st n); intro H; inversion H; reflexivity.
    - destruct (in_strs n float_names).
      + destruct (fmt_float v1); intro H; inversion H; reflexivity.
      + apply ssp_err_state.
  Qed.

  (* ------------------------------------------------------------ successful string settings *)
  Lemma reset_files_get : forall st k v a m, reset_files can_load st k v = Some a ->
    (str_eqb k s_Language && str_eqb m s_LanguageAuto = false) -> pget m a = pget m (api st).
  Proof.
    intros st k v a m Hr Hm. destruct (reset_files_api st k v a Hr) as [H|[Hk [y Hy]]]; [subst; reflexivity|].
    subst a. rewrite Hk in Hm. cbn [andb] in Hm. apply pget_pset_other. exact Hm.
  Qed.
  Lemma reset_files_has : forall st k v a m, reset_files can_load st k v = Some a -> has m (api st) -> has m a.
  Proof.
    intros st k v a m Hr Hm. destruct (reset_files_api st k v a Hr) as [H|[Hk [y Hy]]]; subst; [exact Hm | apply has_pset; exact Hm].
  Qed.

  Definition known (st : pstate) (k : str) : Prop := pref_lookup st k <> None.

  Lemma ssp_ok : forall st k v st', set_str st k v = (st', Ok) ->
    pref_lookup st' k = Some (YS v) /\
    (forall m, str_eqb m k = false -> derived k m = false -> pref_lookup st' m = pref_lookup st m) /\
    (forall m, has m (user st) -> has m (user st')) /\ (forall m, has m (api st) -> has m (api st')).
  Proof.
    intros st k v st'. unfold set_string_pref.
    destruct name_facts as [F1 [F2 [F3 [F4 [F5 [F6 F7]]]]]].
    assert (Hla : forall m, derived k m = false -> str_eqb k s_Language && str_eqb m s_LanguageAuto = false).
    { intros m Hd. unfold derived in Hd. apply orb_false_iff in Hd. exact (proj2 Hd). }
    assert (HkLA : str_eqb k s_Language && str_eqb k s_LanguageAuto = false).
    { destruct (str_eqb k s_Language) eqn:E; [|reflexivity]. cbn [andb]. eapply eqb_trans_false; [exact E|].
      rewrite str_eqb_sym. exact F6. }
    destruct (pget k (api st)) as [v0|] eqn:Eapi.
    - destruct (as_str v0) as [old|] eqn:Eold; [|intro H; inversion H].
      destruct v0; try discriminate. inversion Eold; subst old.
      unfold ssp_go. destruct (if negb (str_eqb s v) then _ else _) as [a|] eqn:Er; [|intro H; inversion H].
      assert (Hget : forall m, str_eqb k s_Language && str_eqb m s_LanguageAuto = false -> pget m a = pget m (api st)).
      { intros m Hm. destruct (negb (str_eqb s v)); [eapply reset_files_get; eauto | inversion Er; reflexivity]. }
      assert (Hhas : forall m, has m (api st) -> has m a).
      { intros m Hm. destruct (negb (str_eqb s v)); [eapply reset_files_has; eauto | inversion Er; subst; exact Hm]. }
      intro H. inversion H; subst st'; clear H. unfold pref_lookup. cbn [api user].
      rewrite pget_pset_same. split; [reflexivity|]. split; [|split; [auto | intros m Hm; apply has_pset; apply Hhas; exact Hm]].
      intros m Hmk Hd. rewrite pget_pset_other by exact Hmk. rewrite (Hget m (Hla m Hd)). reflexivity.
    - destruct (pget k (user st)) as [v0|] eqn:Eu; [|intro H; inversion H].
      destruct (as_str v0) as [old|]; [|intro H; inversion H].
      unfold ssp_go. destruct (if negb (str_eqb old v) then _ else _) as [a|] eqn:Er; [|intro H; inversion H].
      intro H. destruct (ssp_user_ok _ _ _ _ _ H) as [Ha [Hk [Hf Hh]]].
      assert (Hget : forall m, str_eqb k s_Language && str_eqb m s_LanguageAuto = false -> pget m a = pget m (api st)).
      { intros m Hm. destruct (negb (str_eqb old v)); [eapply reset_files_get; eauto | inversion Er; reflexivity]. }
      assert (Hhas : forall m, has m (api st) -> has m a).
      { intros m Hm. destruct (negb (str_eqb old v)); [eapply reset_files_has; eauto | inversion Er; subst; exact Hm]. }
      unfold pref_lookup. rewrite Ha. rewrite (Hget k HkLA), Eapi, Hk. split; [reflexivity|].
      split; [|split; [exact Hh | exact Hhas]].
      intros m Hmk Hd. rewrite (Hget m (Hla m Hd)), (Hf m Hmk Hd). reflexivity.
  Qed.

  (* ------------------------------------------------------------ read back as set *)
  Lemma bool_text : forall lv, str_eqb lv s_true || str_eqb lv s_false = true ->
    yaml_to_str (YB (str_eqb lv s_true)) = lv.
  Proof.
    intros lv H. destruct (str_eqb lv s_true) eqn:E.
    - apply str_eqb_eq in E. subst. reflexivity.
    - cbn [orb] in H. apply str_eqb_eq in H. subst. reflexivity.
  Qed.

  Lemma L_set_get : forall st n v st', set_pref st n v = (st', Ok) -> get_preference st' n = Some (norm n v).
  Proof.
    intros st n v st'. unfold set_preference, normalize.
    destruct (str_eqb n s_Language || str_eqb n s_LanguageAuto).
    - destruct (clean_language v) as [v1|]; [|intro H; inversion H].
      destruct (str_eqb n s_LanguageAuto && str_eqb v1 s_Auto); [intro H; inversion H|].
      destruct (str_eqb n s_LanguageAuto && negb _); [intro H; inversion H|].
      destruct (str_eqb (lower v1) s_true || str_eqb (lower v1) s_false) eqn:Eb.
      + destruct (is_boolean_pref st n); intro H; inversion H; subst st'. unfold get_preference, pref_lookup. cbn [api].
        rewrite pget_pset_same. rewrite (bool_text _ Eb). reflexivity.
      + destruct (in_strs n float_names).
        * destruct (fmt_float v1) as [f|]; intro H; inversion H; subst st'. unfold get_preference, pref_lookup. cbn [api].
          rewrite pget_pset_same. reflexivity.
        * intro H. destruct (ssp_ok _ _ _ _ H) as [Hk _]. unfold get_preference. rewrite Hk. reflexivity.
    - destruct (str_eqb n s_LanguageAuto && str_eqb v s_Auto); [intro H; inversion H|].
      destruct (str_eqb n s_LanguageAuto && negb _); [intro H; inversion H|].
      destruct (str_eqb (lower v) s_true || str_eqb (lower v) s_false) eqn:Eb.
      + destruct (is_boolean_pref st n); intro H; inversion H; subst st'. unfold get_preference, pref_lookup. cbn [api].
        rewrite pget_pset_same. rewrite (bool_text _ Eb). reflexivity.
      + destruct (in_strs n float_names).
        * destruct (fmt_float v) as [f|]; intro H; inversion H; subst st'. unfold get_preference, pref_lookup. cbn [api].
          rewrite pget_pset_same. reflexivity.
        * intro H. destruct (ssp_ok _ _ _ _ H) as [Hk _]. unfold get_preference. rewrite Hk. reflexivity.
  Qed.

  (* ------------------------------------------------------------ frame: nothing else changes, derived names aside *)
  Lemma L_set_frame : forall st n v st' o m, set_pref st n v = (st', o) -> o <> Panic ->
    str_eqb m n = false -> derived n m = false -> get_preference st' m = get_preference st m.
  Proof.
    intros st n v st' o m H Ho Hmn Hd. destruct o; [|apply L_reject_leaves_state in H; subst; reflexivity | congruence].
    revert H. unfold set_preference.
    destruct (if str_eqb n s_Language || str_eqb n s_LanguageAuto then clean_language v else Some v) as [v1|];
      [|intro H; inversion H].
    destruct (str_eqb n s_LanguageAuto && str_eqb v1 s_Auto); [intro H; inversion H|].
    destruct (str_eqb n s_LanguageAuto && negb _); [intro H; inversion H|].
    destruct (str_eqb (lower v1) s_true || str_eqb (lower v1) s_false).
    - destruct (is_boolean_pref st n); intro H; inversion H; subst st'. unfold get_preference, pref_lookup. cbn [api user].
      rewrite pget_pset_other by exact Hmn. reflexivity.
    - destruct (in_strs n float_names).
      + destruct (fmt_float v1); intro H; inversion H; subst st'. unfold get_preference, pref_lookup. cbn [api user].
        rewrite pget_pset_other by exact Hmn. reflexivity.
      + intro H. destruct (ssp_ok _ _ _ _ H) as [_ [Hf _]]. unfold get_preference. rewrite (Hf m Hmn Hd). reflexivity.
  Qed.

  (* ------------------------------------------------------------ bad settings are rejected *)
  Lemma L_reject_unknown : forall st n v, pref_lookup st n = None -> in_strs n float_names = false ->
    set_pref st n v = (st, Err).
  Proof.
    intros st n v Hn Hf. unfold set_preference.
    destruct (if str_eqb n s_Language || str_eqb n s_LanguageAuto then clean_language v else Some v) as [v1|]; [|reflexivity].
    destruct (str_eqb n s_LanguageAuto && str_eqb v1 s_Auto); [reflexivity|].
    destruct (str_eqb n s_LanguageAuto && negb _); [reflexivity|].
    unfold is_boolean_pref. rewrite Hn, Hf.
    destruct (str_eqb (lower v1) s_true || str_eqb (lower v1) s_false); [reflexivity|].
    unfold set_string_pref. unfold pref_lookup in Hn.
    destruct (pget n (api st)); [discriminate|]. rewrite Hn. reflexivity.
  Qed.

  (* a boolean spelling for a preference that is not boolean-valued, and a non-boolean string for one that is *)
  Lemma L_reject_wrong_kind : forall st n v,
    (str_eqb (lower v) s_true || str_eqb (lower v) s_false = true -> is_boolean_pref st n = false ->
       str_eqb n s_Language || str_eqb n s_LanguageAuto = false -> set_pref st n v = (st, Err)) /\
    (str_eqb (lower v) s_true || str_eqb (lower v) s_false = false -> is_boolean_pref st n = true ->
       in_strs n float_names = false -> str_eqb n s_Language || str_eqb n s_LanguageAuto = false -> set_pref st n v = (st, Err)).
  Proof.
    intros st n v. split.
    - intros Hb Hk Hl. unfold set_preference. rewrite Hl. apply orb_false_iff in Hl. destruct Hl as [_ Hl]. rewrite Hl.
      cbn [andb]. rewrite Hb, Hk. reflexivity.
    - intros Hb Hk Hf Hl. unfold set_preference. rewrite Hl. apply orb_false_iff in Hl. destruct Hl as [_ Hl]. rewrite Hl.
      cbn [andb]. rewrite Hb, Hf. unfold set_string_pref. unfold is_boolean_pref, pref_lookup in Hk.
      destruct (pget n (api st)) as [y|].
      + destruct y; try discriminate. reflexivity.
      + destruct (pget n (user st)) as [y|]; [|discriminate]. destruct y; try discriminate. reflexivity.
  Qed.

  (* ------------------------------------------------------------ totality under the invariant, and the invariant *)
  Definition wf (st : pstate) : Prop :=
    (exists s, pget s_DecimalSeparator (user st) = Some (YS s)) /\ (exists s, pget s_Language (user st) = Some (YS s)).

  Lemma ssp_user_wf : forall u a k v, (exists s, pget s_DecimalSeparator u = Some (YS s)) -> (exists s, pget s_Language u = Some (YS s)) ->
    exists st', ssp_user use_decimal_point u a k v = (st', Ok) /\ wf st'.
  Proof.
    intros u a k v [ds Hds] [l Hl]. unfold ssp_user. rewrite Hds. cbn [as_str].
    assert (Hlc : exists lc, lang_changed_of u k v = Some lc).
    { unfold lang_changed_of. destruct (str_eqb k s_Language); [rewrite Hl; cbn [as_str]|]; eexists; reflexivity. }
    destruct Hlc as [lc Hlc]. rewrite Hlc. cbn zeta.
    destruct name_facts as [F1 [F2 [F3 [F4 [F5 [F6 F7]]]]]].
    assert (Hkeep : forall key, (exists s, pget key u = Some (YS s)) -> exists s, pget key (pset k (YS v) u) = Some (YS s)).
    { intros key [s0 Hs0]. destruct (str_eqb key k) eqn:E.
      - apply str_eqb_eq in E. subst. exists v. apply pget_pset_same.
      - exists s0. rewrite pget_pset_other by exact E. exact Hs0. }
    eexists. split; [reflexivity|]. unfold wf. cbn [user].
    destruct (_ || _).
    - split; rewrite set_separators_other by assumption; apply Hkeep; eauto.
    - split; apply Hkeep; eauto.
  Qed.

  Lemma L_prefs_total : forall st n v, wf st ->
    snd (set_pref st n v) <> Panic /\ wf (fst (set_pref st n v)).
  Proof.
    intros st n v Hwf. unfold set_preference.
    destruct (if str_eqb n s_Language || str_eqb n s_LanguageAuto then clean_language v else Some v) as [v1|];
      [|split; [discriminate | exact Hwf]].
    destruct (str_eqb n s_LanguageAuto && str_eqb v1 s_Auto); [split; [discriminate | exact Hwf]|].
    destruct (str_eqb n s_LanguageAuto && negb _); [split; [discriminate | exact Hwf]|].
    destruct (str_eqb (lower v1) s_true || str_eqb (lower v1) s_false).
    - destruct (is_boolean_pref st n); (split; [discriminate | exact Hwf]).
    - destruct (in_strs n float_names).
      + destruct (fmt_float v1); (split; [discriminate | exact Hwf]).
      + unfold set_string_pref. destruct Hwf as [Hd Hl].
        assert (Hgo : forall iu ch, snd (ssp_go use_decimal_point can_load st n v1 iu ch) <> Panic /\
                                    wf (fst (ssp_go use_decimal_point can_load st n v1 iu ch))).
        { intros iu ch. unfold ssp_go. destruct (if ch then _ else _) as [a|]; [|split; [discriminate | split; assumption]].
          destruct iu.
          - destruct (ssp_user_wf (user st) a n v1 Hd Hl) as [st' [He Hw]]. rewrite He. split; [discriminate | exact Hw].
          - split; [discriminate | split; assumption]. }
        destruct (pget n (api st)) as [y|].
        * destruct (as_str y) as [old|]; [|split; [discriminate | split; assumption]]. destruct (str_eqb old v1); apply Hgo.
        * destruct (pget n (user st)) as [y|]; [|split; [discriminate | split; assumption]].
          destruct (as_str y) as [old|]; [|split; [discriminate | split; assumption]]. apply Hgo.
  Qed.

  (* every reachable state: the invariant holds and no step panics *)
  Notation step' := (step use_decimal_point float_names can_load fmt_float).
  Notation run' := (run use_decimal_point float_names can_load fmt_float).

  Lemma L_run_wf : forall ops st, wf st -> wf (run' st ops).
  Proof.
    induction ops as [|o ops IH]; intros st Hwf; [exact Hwf|]. cbn [run fold_left]. apply IH.
    destruct o as [n v|]; cbn [step fst]; [exact (proj2 (L_prefs_total st n v Hwf)) | exact Hwf].
  Qed.

  Lemma L_run_no_panic : forall ops st o, wf st -> snd (step' (run' st ops) o) <> Panic.
  Proof.
    intros ops st o Hwf. pose proof (L_run_wf ops st Hwf) as Hw.
    destruct o as [n v|]; cbn [step snd]; [exact (proj1 (L_prefs_total _ n v Hw)) | discriminate].
  Qed.

  (* persistence: calls other than set_preference never change a preference *)
  Lemma L_persist : forall st k, get_preference (fst (step' st OtherCall)) k = get_preference st k.
  Proof. reflexivity. Qed.

  (* known names stay known *)
  Lemma L_known_monotone : forall st n v k, snd (set_pref st n v) <> Panic -> known st k -> known (fst (set_pref st n v)) k.
  Proof.
    intros st n v k Hp Hk. destruct (set_pref st n v) as [st' o] eqn:E. cbn [fst snd] in *.
    destruct o; [|apply L_reject_leaves_state in E; subst; exact Hk | congruence].
    revert E. unfold set_preference.
    destruct (if str_eqb n s_Language || str_eqb n s_LanguageAuto then clean_language v else Some v) as [v1|];
      [|intro H; inversion H].
    destruct (str_eqb n s_LanguageAuto && str_eqb v1 s_Auto); [intro H; inversion H|].
    destruct (str_eqb n s_LanguageAuto && negb _); [intro H; inversion H|].
    assert (Hapi : forall y, known {| user := user st; api := pset n y (api st) |} k).
    { intro y. unfold known, pref_lookup in *. cbn [api user]. destruct (str_eqb k n) eqn:Ekn.
      - apply str_eqb_eq in Ekn. subst. rewrite pget_pset_same. discriminate.
      - rewrite pget_pset_other by exact Ekn. exact Hk. }
    destruct (str_eqb (lower v1) s_true || str_eqb (lower v1) s_false).
    - destruct (is_boolean_pref st n); intro H; inversion H; subst st'. apply Hapi.
    - destruct (in_strs n float_names).
      + destruct (fmt_float v1); intro H; inversion H; subst st'. apply Hapi.
      + intro H. destruct (ssp_ok _ _ _ _ H) as [_ [_ [Hu Ha]]]. unfold known, pref_lookup in *.
        destruct (pget k (api st)) as [y|] eqn:Eka.
        * assert (Hh : has k (api st')) by (apply Ha; unfold has; rewrite Eka; discriminate).
          unfold has in Hh. destruct (pget k (api st')); [discriminate | congruence].
        * assert (Hh : has k (user st')) by (apply Hu; exact Hk).
          unfold has in Hh. destruct (pget k (api st')); [discriminate | exact Hh].
  Qed.
End Proofs.
