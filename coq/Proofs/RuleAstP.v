(* a replacement that passes [speaks_list] speaks whatever its conditions evaluate to *)
From MC Require Import Lib.Base Model.RuleAst.

Theorem L_speaks_sound :
  (forall r, speaksb r = true -> forall s, (0 < fst (eval r s))%nat) /\
  (forall rs, speaks_list rs = true -> forall s, (0 < fst (evals rs s))%nat) /\
  (forall bs, speaks_branches bs = true -> forall s, (0 < fst (evalb bs s))%nat) /\
  (forall e, match e with ESome rs => speaks_list rs = true -> forall s, (0 < fst (evals rs s))%nat | ENone => True end).
Proof.
  apply rule_ast_ind.
  - (* RText *) intros b H s. cbn in *. subst b. cbn. lia.
  - (* RXpath *) intros _ s. cbn. lia.
  - (* RSilent *) intros H. discriminate.
  - (* RWrap *) intros body IH H s. cbn in *. apply IH. exact H.
  - (* RTest *) intros bs IHb H s. cbn in *. apply IHb. exact H.
  - (* RNil *) intros H. discriminate.
  - (* RCons *) intros r IHr rs IHrs H s. cbn [speaks_list] in H. cbn [evals].
    destruct (eval r s) as [n s1] eqn:E1. destruct (evals rs s1) as [m s2] eqn:E2. cbn [fst].
    apply orb_true_iff in H. destruct H as [H|H].
    + specialize (IHr H s). rewrite E1 in IHr. cbn in IHr. lia.
    + specialize (IHrs H s1). rewrite E2 in IHrs. cbn in IHrs. lia.
  - (* BEnd *) intros e IHe H s. cbn [speaks_branches] in H. destruct e as [|rs]; [discriminate|]. cbn [evalb]. apply IHe. exact H.
  - (* BCons *) intros b IHb bs IHbs H s. cbn [speaks_branches] in H. apply andb_true_iff in H. destruct H as [H1 H2].
    cbn [evalb]. destruct s as [|[|] s'].
    + apply IHbs. exact H2.
    + apply IHb. exact H1.
    + apply IHbs. exact H2.
  - (* ENone *) exact I.
  - (* ESome *) intros rs IH. exact IH.
Qed.

Theorem L_speaks_list_sound : forall rs, speaks_list rs = true -> forall s, (0 < fst (evals rs s))%nat.
Proof. exact (proj1 (proj2 L_speaks_sound)). Qed.
