(* the evaluator of replacements (Model/RuleAst.v): a replacement that passes [speaks_items] speaks whatever its
   conditions evaluate to; a list is evaluated item by item; a test gives the part of its first entry that decides *)
From MC Require Import Lib.Base Model.RuleAst.
Local Open Scope N_scope.

Lemma spoken_app a b : spoken (a ++ b) = (spoken a + spoken b)%nat.
Proof. unfold spoken. rewrite filter_app, app_length. reflexivity. Qed.
Lemma spoken_cons e a : spoken (e :: a) = ((if speaking e then 1 else 0) + spoken a)%nat.
Proof. unfold spoken. cbn [filter]. destruct (speaking e); reflexivity. Qed.

Lemma speaking_lit id : speaking (ev_lit id) = false.
Proof.
  unfold speaking, ev_lit, ev_text, ev_x, ev_tts_sp, ev_translate.
  rewrite !(proj2 (N.eqb_neq _ _)) by lia. reflexivity.
Qed.

Theorem L_speaks_sound :
  (forall i, speaksb i = true -> forall s, (0 < spoken (fst (tr_item i s)))%nat) /\
  (forall r, speaks_items r = true -> forall s, (0 < spoken (fst (tr_items r s)))%nat) /\
  (forall es, speaks_entries es = true -> forall s, (0 < spoken (fst (tr_entries es s)))%nat) /\
  (forall p, speaks_part p = true -> forall s, (0 < spoken (fst (tr_part p s)))%nat).
Proof.
  apply rule_ast_ind.
  - (* IText *) intros b id H s. cbn [speaksb] in H. subst b. cbn [tr_item fst]. rewrite !spoken_cons, speaking_lit. cbn. lia.
  - (* IX *) intros _ s. cbn. lia.
  - (* ITts *) intros sp body IH H s. cbn [speaksb] in H. cbn [tr_item].
    destruct (tr_items body s) as [e s1] eqn:E. cbn [fst]. rewrite spoken_cons.
    destruct sp; [cbn; lia|]. cbn [orb] in H. specialize (IH H s). rewrite E in IH. cbn [fst] in IH. lia.
  - (* IIntent *) intros body IH H s. cbn [speaksb] in H. cbn [tr_item].
    destruct (tr_items body s) as [e s1] eqn:E. cbn [fst]. rewrite spoken_cons.
    specialize (IH H s). rewrite E in IH. cbn [fst] in IH. lia.
  - (* ITest *) intros es IH H s. cbn [speaksb] in H. cbn [tr_item].
    destruct (tr_entries es s) as [e s1] eqn:E. cbn [fst]. rewrite spoken_cons.
    specialize (IH H s). rewrite E in IH. cbn [fst] in IH. lia.
  - (* IWith *) intros body IH H s. cbn [speaksb] in H. cbn [tr_item].
    destruct (tr_items body s) as [e s1] eqn:E. cbn [fst]. rewrite spoken_cons.
    specialize (IH H s). rewrite E in IH. cbn [fst] in IH. lia.
  - (* ISetVars *) intros H. discriminate.
  - (* IInsert *) intros body _ H. discriminate.
  - (* ITranslate *) intros _ s. cbn. lia.
  - (* IBad *) intros H. discriminate.
  - (* INil *) intros H. discriminate.
  - (* ICons *) intros i IHi r IHr H s. cbn [speaks_items] in H. cbn [tr_items].
    destruct (tr_item i s) as [e1 s1] eqn:E1. destruct (tr_items r s1) as [e2 s2] eqn:E2. cbn [fst]. rewrite spoken_app.
    apply orb_true_iff in H. destruct H as [H|H].
    + specialize (IHi H s). rewrite E1 in IHi. cbn [fst] in IHi. lia.
    + specialize (IHr H s1). rewrite E2 in IHr. cbn [fst] in IHr. lia.
  - (* ENil *) intros H. discriminate.
  - (* ECons *) intros c th IHth el IHel rest IHrest H s. cbn [speaks_entries] in H. apply andb_true_iff in H. destruct H as [H1 H2].
    cbn [tr_entries]. destruct (next s) as [o s0]. destruct (c && negb (o =? 0)) eqn:Ec.
    + apply andb_true_iff in Ec. destruct Ec as [Ec _]. subst c.
      destruct (tr_part th s0) as [e s1] eqn:E. cbn [fst]. rewrite !spoken_cons.
      specialize (IHth H1 s0). rewrite E in IHth. cbn [fst] in IHth. lia.
    + destruct el as [|r|es].
      * destruct (tr_entries rest s0) as [e s1] eqn:E. cbn [fst]. rewrite spoken_cons.
        specialize (IHrest H2 s0). rewrite E in IHrest. cbn [fst] in IHrest. lia.
      * destruct (tr_part (PRepl r) s0) as [e s1] eqn:E. cbn [fst]. rewrite spoken_cons.
        specialize (IHel H2 s0). rewrite E in IHel. cbn [fst] in IHel. lia.
      * destruct (tr_part (PTest es) s0) as [e s1] eqn:E. cbn [fst]. rewrite spoken_cons.
        specialize (IHel H2 s0). rewrite E in IHel. cbn [fst] in IHel. lia.
  - (* PNone *) intros H. discriminate.
  - (* PRepl *) intros r IH H s. cbn [speaks_part] in H. cbn [tr_part]. apply IH. exact H.
  - (* PTest *) intros es IH H s. cbn [speaks_part] in H. cbn [tr_part]. apply IH. exact H.
Qed.

Theorem L_speaks_list_sound : forall r, speaks_items r = true -> forall s, (0 < spoken (fst (tr_items r s)))%nat.
Proof. exact (proj1 (proj2 L_speaks_sound)). Qed.

(* ---- a list is evaluated item by item, left to right, each item on the stream the previous ones left ---- *)
Fixpoint app_items (a b : items) : items := match a with INil => b | ICons i r => ICons i (app_items r b) end.

Theorem L_items_in_order : forall a b s,
  tr_items (app_items a b) s =
  (fst (tr_items a s) ++ fst (tr_items b (snd (tr_items a s))), snd (tr_items b (snd (tr_items a s)))).
Proof.
  induction a as [|i r IH]; intros b s.
  - cbn. destruct (tr_items b s); reflexivity.
  - cbn [app_items tr_items]. destruct (tr_item i s) as [e1 s1]. rewrite IH.
    destruct (tr_items r s1) as [e2 s2]. cbn [fst snd]. destruct (tr_items b s2) as [e3 s3]. cbn [fst snd].
    rewrite app_assoc. reflexivity.
Qed.

(* ---- what a test gives: the part of the first entry that decides ---- *)
(* [decide es os]: the entries see the outcomes os one after the other; the first entry whose condition holds decides
   for its then part, an entry before it that has an else part decides for that; None when no entry decides *)
Fixpoint decide (es : entries) (os : list N) : option part :=
  match es with
  | ENil => None
  | ECons c th el rest =>
      let (o, os') := next os in
      if c && negb (o =? 0) then Some th
      else match el with PNone => decide rest os' | _ => Some el end
  end.
(* the entries visited (each consumes one outcome) up to and including the one that decides *)
Fixpoint visited (es : entries) (os : list N) : nat :=
  match es with
  | ENil => O
  | ECons c th el rest =>
      let (o, os') := next os in
      if c && negb (o =? 0) then 1%nat
      else match el with PNone => Datatypes.S (visited rest os') | _ => 1%nat end
  end.
Fixpoint drop {A} (n : nat) (l : list A) : list A := match n, l with Datatypes.S n', _ :: l' => drop n' l' | _, _ => l end.

Definition no_entry_events (e : list N) : list N := filter (fun x => negb ((x =? ev_entry) || (x =? ev_true))) e.

Theorem L_test_gives_first_deciding_part : forall es s,
  snd (tr_entries es s) = snd (tr_part (match decide es s with Some p => p | None => PNone end) (drop (visited es s) s)) /\
  exists pre, fst (tr_entries es s) = pre ++ fst (tr_part (match decide es s with Some p => p | None => PNone end) (drop (visited es s) s)) /\
              Forall (fun x => x = ev_entry \/ x = ev_true) pre.
Proof.
  induction es as [|c th el rest IH]; intros s.
  - cbn. split; [reflexivity|]. exists []. split; [reflexivity|constructor].
  - cbn [tr_entries decide visited]. destruct s as [|o s0]; cbn [next].
    + (* stream exhausted: outcome 0 *) rewrite andb_false_r.
      destruct el as [|r|es'].
      * destruct (IH []) as [IH1 [pre [IH2 IH3]]]. destruct (tr_entries rest []) as [e s1] eqn:E. cbn [fst snd] in *.
        replace (drop (Datatypes.S (visited rest [])) (@nil N)) with (drop (visited rest []) (@nil N)) by (destruct (visited rest []); reflexivity).
        split; [exact IH1|]. exists (ev_entry :: pre). split; [rewrite IH2; reflexivity|]. constructor; [left; reflexivity|exact IH3].
      * cbn [drop]. destruct (tr_part (PRepl r) []) as [e s1]. cbn [fst snd]. split; [reflexivity|]. exists [ev_entry]. split; [reflexivity|].
        constructor; [left; reflexivity|constructor].
      * cbn [drop]. destruct (tr_part (PTest es') []) as [e s1]. cbn [fst snd]. split; [reflexivity|]. exists [ev_entry]. split; [reflexivity|].
        constructor; [left; reflexivity|constructor].
    + destruct (c && negb (o =? 0)).
      * cbn [drop]. destruct (tr_part th s0) as [e s1]. cbn [fst snd]. split; [reflexivity|]. exists [ev_entry; ev_true]. split; [reflexivity|].
        constructor; [left; reflexivity|constructor; [right; reflexivity|constructor]].
      * destruct el as [|r|es'].
        -- destruct (IH s0) as [IH1 [pre [IH2 IH3]]]. destruct (tr_entries rest s0) as [e s1] eqn:E. cbn [fst snd drop] in *.
           split; [exact IH1|]. exists (ev_entry :: pre). split; [rewrite IH2; reflexivity|]. constructor; [left; reflexivity|exact IH3].
        -- cbn [drop]. destruct (tr_part (PRepl r) s0) as [e s1]. cbn [fst snd]. split; [reflexivity|]. exists [ev_entry]. split; [reflexivity|].
           constructor; [left; reflexivity|constructor].
        -- cbn [drop]. destruct (tr_part (PTest es') s0) as [e s1]. cbn [fst snd]. split; [reflexivity|]. exists [ev_entry]. split; [reflexivity|].
           constructor; [left; reflexivity|constructor].
Qed.

(* an entry after one that has an else part is never reached: the else part of an entry in the middle ends the test *)
Theorem L_else_ends_the_test : forall c th el rest rest' s, el <> PNone ->
  tr_entries (ECons c th el rest) s = tr_entries (ECons c th el rest') s.
Proof.
  intros c th el rest rest' s Hel. cbn [tr_entries]. destruct (next s) as [o s0]. destruct (c && negb (o =? 0)); [reflexivity|].
  destruct el; [contradiction|reflexivity|reflexivity].
Qed.

(* an insert over k nodes selects k times and evaluates its body between the selections *)
Definition rep_body (body : items) : nat -> list N -> list N * list N :=
  fix rep (n : nat) (s : list N) {struct n} : list N * list N :=
    match n with
    | Datatypes.O => ([], s)
    | Datatypes.S n' => let (e1, s1) := tr_items body s in let (e2, s2) := rep n' s1 in (e1 ++ ev_x :: e2, s2)
    end.

Lemma tr_insert_eq body s :
  tr_item (IInsert body) s =
  let (k, s0) := next s in
  if k =? 0 then ([ev_insert], s0) else
  let (e, s1) := rep_body body (N.to_nat k - 1)%nat s0 in (ev_insert :: ev_nodes k :: ev_x :: e, s1).
Proof. reflexivity. Qed.

Lemma selections_app a b : selections (a ++ b) = (selections a + selections b)%nat.
Proof. unfold selections. rewrite filter_app, app_length. reflexivity. Qed.

Lemma rep_body_selections body : (forall s', selections (fst (tr_items body s')) = O) ->
  forall n s0, selections (fst (rep_body body n s0)) = n.
Proof.
  intros Hb. induction n as [|n IHn]; intros s0; [reflexivity|].
  cbn [rep_body]. fold (rep_body body). specialize (Hb s0). destruct (tr_items body s0) as [e1 s1]. specialize (IHn s1).
  destruct (rep_body body n s1) as [e2 s2]. cbn [fst] in *. rewrite selections_app. rewrite Hb.
  unfold selections in *. cbn [filter]. change (ev_x =? ev_x) with true. cbn [List.length]. lia.
Qed.

Theorem L_insert_selects_every_node : forall body k s, k <> 0 -> (forall s', selections (fst (tr_items body s')) = O) ->
  selections (fst (tr_item (IInsert body) (k :: s))) = N.to_nat k.
Proof.
  intros body k s Hk Hb. rewrite tr_insert_eq. cbn [next]. destruct (k =? 0) eqn:E; [apply N.eqb_eq in E; contradiction|].
  pose proof (rep_body_selections body Hb (N.to_nat k - 1)%nat s) as Hrep.
  destruct (rep_body body (N.to_nat k - 1)%nat s) as [e2 s2]. cbn [fst] in *. unfold selections in *. cbn [filter].
  replace (ev_x =? ev_insert) with false by reflexivity.
  replace (ev_x =? ev_nodes k) with false by (unfold ev_x, ev_nodes; symmetry; apply N.eqb_neq; lia).
  change (ev_x =? ev_x) with true. cbn [List.length]. lia.
Qed.
