(* C08 proofs: PROGRESS of the shift/reduce machine.  ParserP shows that every step that returns keeps the stack
   invariant; here: under the invariant, every step for a well-formed decision DOES return -- none of the machine's
   panic sites (add_child on a full frame, remove_last_operand on an empty one, reduce on a one-frame stack, pops of an
   empty stack, children()[0] of a childless script) is reachable, and the fuel of reduce is enough. *)
From MC Require Import Lib.Base Lib.Tree Gen.OpDict Model.ParserCore Model.Parser Model.ParserSpec Proofs.ParserP.
From Coq Require Import String.
Local Close Scope string_scope.
Local Open Scope N_scope.

Lemma reduce_loop_total : forall fuel cur prev st,
  sinv (closedb cur) st -> Forall fdeep st ->
  (exists top rest, st = top :: rest /\ f_operand top = true /\ prev = o_prio (f_op top)) ->
  (List.length st <= fuel)%nat -> exists st', reduce_loop fuel cur prev st = Ok st'.
Proof.
  induction fuel as [|fuel IH]; intros cur prev st Hs Hd [top [rest [-> [Hf ->]]]] Hl.
  - cbn in Hl. inversion Hl.
  - cbn [reduce_loop]. destruct (cur <? o_prio (f_op top)) eqn:E; [|eexists; reflexivity].
    destruct rest as [|below rest]; [eexists; reflexivity|].
    apply N.ltb_lt in E. destruct (reduce_one_inv cur top below rest Hs Hf E Hd) as [m [R [Hs' Hd']]].
    rewrite R. cbn [bind fst snd]. apply IH; [exact Hs' | exact Hd' | | ].
    + exists (with_operand below m), rest. split; [reflexivity|]. split; reflexivity.
    + cbn [List.length] in *. apply le_S_n in Hl. exact Hl.
Qed.

Lemma reduce_total : forall cur st, sinv (closedb cur) st -> Forall fdeep st -> top_full st ->
  exists st', reduce cur st = Ok st'.
Proof.
  intros cur st Hs Hd [top [rest [-> Hf]]]. unfold reduce. apply reduce_loop_total; auto.
  exists top, rest. auto.
Qed.

(* the one assumption about the shape of a child: a script element that is classified as an operator has children
   (an embellished operator has its base inside) *)
Definition script_kids_ok (c : ptree) : Prop := is_script_tag (ptag c) = true -> pkids c <> [].

Lemma ptag_set_ann : forall a t, ptag (set_ann a t) = ptag t.
Proof. intros a [an g at_ k x]. reflexivity. Qed.
Lemma pkids_set_ann : forall a t, pkids (set_ann a t) = pkids t.
Proof. intros a [an g at_ k x]. reflexivity. Qed.

Lemma lift_total : forall k c, script_kids_ok c -> exists m', potentially_lift_script (mk_row (c :: k)) = Ok m'.
Proof.
  intros k c Hc. unfold potentially_lift_script.
  replace (tag_is (mk_row (c :: k)) s_mrow) with true by reflexivity. cbn [negb].
  replace (pkids (mk_row (c :: k))) with (rev (c :: k)) by reflexivity.
  destruct (rev (c :: k)) as [|first l] eqn:R.
  - exfalso. cbn [rev] in R. destruct (rev k); discriminate.
  - rewrite <- R, rev_involutive.
    destruct (tag_is first s_mo && is_fence_mo first && is_script_tag (ptag c)) eqn:E; [|eexists; reflexivity].
    apply andb_true_iff in E. destruct E as [_ E]. destruct (pkids c) as [|base scripts] eqn:K.
    + exfalso. exact (Hc E K).
    + destruct (tag_is base s_mo && is_fence_mo base); eexists; reflexivity.
Qed.

Lemma add_to_top_operand : forall g rest m, f_operand g = false ->
  exists g', add_to_top (g :: rest) m (S "illegal"%string) op_illegal = Ok (g' :: rest).
Proof.
  intros g rest m Hw. unfold add_to_top. pose proof (add_operand_eq g m Hw) as E. unfold illegal_pair in E. cbn [fst] in E.
  rewrite E. cbn [bind]. eexists; reflexivity.
Qed.

Section Progress.
  Variable good : opinfo -> Prop.
  Hypothesis good_nary : forall a b, good a -> good b -> is_nary a b = true -> o_prio a = o_prio b /\ o_ty a = o_ty b.
  Hypothesis good_fencepost : good op_fencepost.
  Hypothesis good_not_illegal : forall a, good a -> ptr_eq a op_illegal = false.

  (* reduce, shift and add for ANY operator that is not the illegal one: infix, postfix, right fence *)
  Lemma shift_add_total : forall pend T rest c ch op,
    sinv pend (T :: rest) -> f_operand T = true -> ptr_eq op op_illegal = false -> script_kids_ok c ->
    exists st', (do sh <- shift (T :: rest) c ch op;
                 let '(st2, c2, (ch2, op2)) := sh in add_to_top st2 c2 ch2 op2) = Ok st'.
  Proof.
    intros pend T rest c ch op Hs Tf Ni Hc. unfold shift.
    destruct (is_nary op (f_op T)).
    { cbn [bind]. unfold add_to_top. rewrite (add_operator_eq T c ch op Ni). cbn [bind]. eexists; reflexivity. }
    destruct (sinv_full_kids _ _ _ Hs Tf) as [e [K _]].
    assert (Kn : null (f_kids T) = false) by (rewrite K; reflexivity).
    assert (Kne : f_kids T <> []) by (rewrite K; discriminate).
    rewrite Kn, Tf. cbn [negb orb andb].
    destruct (is_right_fence op).
    - rewrite (add_operator_eq T c ch op Ni). cbn [bind f_kids].
      destruct rest as [|g rest']; cbn [null].
      + unfold illegal_pair. cbn [bind]. destruct (add_to_top_operand new_frame [] (mk_row (set_ann (Some op) c :: f_kids T)) eq_refl) as [g' E].
        rewrite E. eexists; reflexivity.
      + assert (Hc' : script_kids_ok (set_ann (Some op) c)).
        { unfold script_kids_ok. rewrite ptag_set_ann, pkids_set_ann. exact Hc. }
        destruct (lift_total (f_kids T) (set_ann (Some op) c) Hc') as [m' Hm]. rewrite Hm. unfold illegal_pair. cbn [bind].
        apply sinv_cons in Hs. destruct Hs as [_ [Hw _]].
        destruct (add_to_top_operand g rest' m' Hw) as [g' E]. rewrite E. eexists; reflexivity.
    - destruct (remove_last_eq T Tf Kne) as [e2 [K2 RL]]. destruct (is_postfix op).
      + rewrite RL. cbn [bind fst snd]. rewrite (add_operator_eq _ c ch op Ni). unfold illegal_pair. cbn [bind].
        match goal with |- context [add_to_top (without_last T :: rest) ?m _ _] =>
          destruct (add_to_top_operand (without_last T) rest m eq_refl) as [g' E] end.
        rewrite E. eexists; reflexivity.
      + rewrite RL. cbn [bind fst snd]. unfold add_to_top. rewrite (add_operator_eq _ c ch op Ni). cbn [bind].
        eexists; reflexivity.
  Qed.

  Lemma push_total : forall st c ch op,
    sinv solidb st -> Forall fdeep st -> top_full st -> ptr_eq op op_illegal = false -> script_kids_ok c ->
    exists st', push_postfix st c ch op = Ok st'.
  Proof.
    intros st c ch op Hs Hd Hf Ni Hc. unfold push_postfix.
    assert (Hs0 : sinv (closedb (o_prio op)) st) by (eapply sinv_weaken; [|exact Hs]; intros; apply solid_closed; auto).
    destruct (reduce_total _ _ Hs0 Hd Hf) as [st1 R]. rewrite R. cbn [bind].
    destruct (reduce_inv _ _ _ Hs0 Hd Hf R) as [Hs1 [_ [T [rest [-> [Tf _]]]]]].
    exact (shift_add_total _ T rest c ch op Hs1 Tf Ni Hc).
  Qed.

  (* the shape condition on a decision: its operator child, and the implied operator before it, are fine as scripts *)
  Fixpoint shape_dec (d : decision) : Prop :=
    match d with
    | DOp c _ _ implied => script_kids_ok c /\ match implied with Some (imo, _, _) => script_kids_ok imo | None => True end
    | DJuxta imo _ _ _ => script_kids_ok imo
    | DPre d' => shape_dec d'
    | _ => True
    end.

  Theorem act_total : forall st d, inv good st -> wf_dec good st d -> shape_dec d -> exists st', act st d = Ok st'.
  Proof.
    intros st d Hi Hw Hsh. pose proof Hi as [Hs [Hd Hg]]. inversion Hw; subst; cbn [act shape_dec] in *.
    - destruct (add_operand_inv good st c Hi H H0 H1) as [s' [E _]]. eauto.
    - rewrite (push_implied_eq _ _ _ _ H1).
      destruct (push_total st imo ich iop Hs Hd H (good_not_illegal _ H0) Hsh) as [st2 P].
      change (push_infix st imo ich iop) with (push_postfix st imo ich iop). rewrite P. cbn [bind].
      destruct (push_infix_inv good good_nary good_not_illegal st imo ich iop st2 Hs Hd Hg H H0 H1 H2 H3 P) as [Hs2 [Hd2 [Hg2 Hw2]]].
      destruct (add_operand_inv good st2 c (conj Hs2 (conj Hd2 Hg2)) Hw2 H4 H5) as [s' [E _]]. eauto.
    - rewrite (good_not_illegal _ H0). destruct (ty2_facts op H1) as [F1 [F2 [F3 [F4 F5]]]]. rewrite F4, F1. cbn [orb].
      destruct Hsh as [Hc _]. exact (push_total st c ch op Hs Hd H (good_not_illegal _ H0) Hc).
    - rewrite (good_not_illegal _ H0). destruct (ty4_facts op H1) as [F1 [F2 F3]].
      assert (F4 : is_left_fence op = false) by (destruct op as [ty pr ce]; cbn in H1; subst ty; reflexivity).
      rewrite F4, F1. cbn [orb]. destruct Hsh as [Hc _]. exact (push_total st c ch op Hs Hd H (good_not_illegal _ H0) Hc).
    - rewrite (good_not_illegal _ H0). destruct (ty12_facts op H1) as [F1 [F2 F3]].
      assert (F4 : is_left_fence op = false) by (destruct op as [ty pr ce]; cbn in H1; subst ty; reflexivity).
      rewrite F4, F1. cbn [orb]. destruct Hsh as [Hc _]. exact (push_total st c ch op Hs Hd H (good_not_illegal _ H0) Hc).
    - rewrite (good_not_illegal _ H0). destruct (prefix_ty_facts op H1) as [P1 [P2 P3]]. rewrite P2. cbn [bind].
      destruct (push_prefix_inv good good_not_illegal st c ch op Hi H H0 H1 H2) as [s' [E _]]. eauto.
    - rewrite (good_not_illegal _ H0). destruct (prefix_ty_facts op H1) as [P1 [P2 P3]]. rewrite P2.
      rewrite (push_implied_eq _ _ _ _ H4). destruct Hsh as [_ Hc].
      destruct (push_total st imo ich iop Hs Hd H (good_not_illegal _ H3) Hc) as [st2 P].
      change (push_infix st imo ich iop) with (push_postfix st imo ich iop). rewrite P. cbn [bind].
      destruct (push_infix_inv good good_nary good_not_illegal st imo ich iop st2 Hs Hd Hg H H3 H4 H5 H6 P) as [Hs2 [Hd2 [Hg2 Hw2]]].
      destruct (push_prefix_inv good good_not_illegal st2 c ch op (conj Hs2 (conj Hd2 Hg2)) Hw2 H0 H1 H2) as [s' [E _]]. eauto.
  Qed.

  (* a whole row: every well-formed decision sequence runs to the end, and ends in a state that meets the invariant *)
  Theorem run_total : forall ds st, inv good st -> wf_run good st ds -> Forall shape_dec ds ->
    exists st', run st ds = Ok st' /\ inv good st'.
  Proof.
    induction ds as [|d r IH]; intros st Hi Hw Hsh; cbn [run].
    - exists st. auto.
    - inversion Hw as [|? ? ? Wd Wr]; subst. inversion Hsh as [|? ? Sd Sr]; subst.
      destruct (act_total st d Hi Wd Sd) as [s1 A]. rewrite A. cbn [bind].
      apply IH; [| apply Wr; exact A | exact Sr].
      eapply act_inv; eauto.
  Qed.
End Progress.
