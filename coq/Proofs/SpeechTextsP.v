(* C04 / C05 obligations over the GENERATED rule texts (Gen/SpeechTexts.v): discharged by evaluation. *)
From MC Require Import Lib.Base Model.SpeechAsm Gen.SpeechTexts.
Local Open Scope N_scope.

Definition bad_ranges : list (N * N) := [(0xE000, 0xF8FF); (0xF0000, 0x10FFFF); (0x2061, 0x2064); (60, 60); (62, 62)].
Definition char_cleanb (c : N) : bool := negb (in_ranges c bad_ranges).
Fixpoint no_double (c : N) (s : str) : bool :=
  match s with a :: ((b :: _) as r) => negb ((a =? c) && (b =? c)) && no_double c r | _ => true end.
(* speech_alphabets: per language every code point that occurs in a literal text of its rule and Unicode files;
   speech_bracket_texts: the texts that contain a square bracket *)
Lemma all_texts_clean : forallb (forallb char_cleanb) speech_alphabets = true.
Proof. vm_compute. reflexivity. Qed.
Lemma no_nav_brackets : forallb (forallb (fun t => no_double 91 t && no_double 93 t)) speech_bracket_texts = true.
Proof. vm_compute. reflexivity. Qed.

Lemma all_ot_digit_free : forallb (forallb no_digits) speech_ot = true.
Proof. vm_compute. reflexivity. Qed.

Lemma L_text_reading : forall lang c, In lang speech_alphabets -> In c lang -> in_ranges c bad_ranges = false.
Proof.
  intros lang c Hl Hc. pose proof (forallb_In _ _ _ all_texts_clean Hl) as H2.
  pose proof (forallb_In _ _ _ H2 Hc) as H3. unfold char_cleanb in H3. apply negb_true_iff in H3. exact H3.
Qed.
