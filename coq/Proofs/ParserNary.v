(* C03 proofs, part 1: is_nary is an equivalence relation (it is equality of a class function on cells), and the
   table obligations about the generated operator dictionary. *)
From MC Require Import Lib.Base Lib.Tree Gen.OpDict Model.ParserCore.
Local Open Scope N_scope.

Definition kP := o_cell op_plus.
Definition kM := o_cell op_minus.
Definition kT := o_cell op_times.
Definition kX := o_cell op_times_sign.

Definition cls (n : N) : N :=
  if (n =? kP) || (n =? kM) then kP else if (n =? kT) || (n =? kX) then kT else n.

Lemma named_cells_distinct :
  negb (kP =? kM) && negb (kP =? kT) && negb (kP =? kX) && negb (kM =? kT) && negb (kM =? kX) && negb (kT =? kX) = true.
Proof. vm_compute. reflexivity. Qed.

Ltac simp_eqbs :=
  repeat (rewrite N.eqb_refl ||
          match goal with
          | H : ?x <> ?y |- context [?x =? ?y] => rewrite (proj2 (N.eqb_neq x y) H)
          | H : ?x <> ?y |- context [?y =? ?x] => rewrite (proj2 (N.eqb_neq y x) (not_eq_sym H))
          end);
  cbn [orb andb negb].

Lemma is_nary_cls : forall a b, is_nary a b = (cls (o_cell a) =? cls (o_cell b)).
Proof.
  intros [ta pa ca] [tb pb cb].
  unfold is_nary, is_plus_or_minus, is_times, ptr_eq, cls. cbn [o_cell].
  fold kP kM kT kX.
  pose proof named_cells_distinct as D.
  repeat rewrite andb_true_iff in D. repeat rewrite negb_true_iff in D.
  destruct D as [[[[[D1 D2] D3] D4] D5] D6].
  apply N.eqb_neq in D1, D2, D3, D4, D5, D6.
  generalize dependent kX. generalize dependent kT. generalize dependent kM. generalize dependent kP.
  intros kP kM D1 kT D2 D4 kX D3 D5 D6.
  assert (Ha : ca = kP \/ ca = kM \/ ca = kT \/ ca = kX \/ (ca <> kP /\ ca <> kM /\ ca <> kT /\ ca <> kX)) by lia.
  assert (Hb : cb = kP \/ cb = kM \/ cb = kT \/ cb = kX \/ (cb <> kP /\ cb <> kM /\ cb <> kT /\ cb <> kX)) by lia.
  destruct Ha as [Ha|[Ha|[Ha|[Ha|[A1 [A2 [A3 A4]]]]]]]; destruct Hb as [Hb|[Hb|[Hb|[Hb|[B1 [B2 [B3 B4]]]]]]];
    try subst ca; try subst cb; simp_eqbs; simp_eqbs; simp_eqbs; try reflexivity;
    try (rewrite !orb_false_r; apply N.eqb_sym).
Qed.

Lemma is_nary_refl : forall a, is_nary a a = true.
Proof. intro a. rewrite is_nary_cls. apply N.eqb_refl. Qed.
Lemma is_nary_sym : forall a b, is_nary a b = is_nary b a.
Proof. intros a b. rewrite !is_nary_cls. apply N.eqb_sym. Qed.
Lemma is_nary_trans : forall a b c, is_nary a b = true -> is_nary b c = true -> is_nary a c = true.
Proof. intros a b c. rewrite !is_nary_cls. intros H1 H2. apply N.eqb_eq in H1, H2. apply N.eqb_eq. congruence. Qed.
Lemma is_nary_false_l : forall a b c, is_nary a b = true -> is_nary b c = false -> is_nary a c = false.
Proof.
  intros a b c H1 H2. destruct (is_nary a c) eqn:E; [|reflexivity].
  rewrite is_nary_sym in H1. rewrite (is_nary_trans b a c H1 E) in H2. discriminate.
Qed.
