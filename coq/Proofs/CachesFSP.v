(* C14 proofs over Model/CachesFS.v: for ANY history of file systems, keys and CheckRuleFiles values. *)
From MC Require Import Lib.Base Model.CachesFS.
Local Open Scope N_scope.

Section Proofs.
  Variable V : Type.
  Notation FS := (fsys V).
  Notation SL := (fslot V).

  Lemma finv_mono : forall (P Q : FS -> Prop) s, (forall x, P x -> Q x) -> finv P s -> finv Q s.
  Proof.
    intros P Q s H [E|[fs0 [k [v [inc [Hp [Hl Hs]]]]]]]; [left; exact E|].
    right. exists fs0, k, v, inc. auto.
  Qed.

  Lemma fempty_inv : forall P, finv P (@fempty V).
  Proof. intro P. left. reflexivity. Qed.

  (* the slot after a check is consistent with the past extended by the file system of the check *)
  Lemma fcheck_inv : forall ig guard (P : FS -> Prop) (fs : FS) (s : SL) k, finv P s ->
    finv (fun x => x = fs \/ P x) (fst (fst (fcheck ig guard fs s k))).
  Proof.
    intros ig guard P fs s k Hi. unfold fcheck.
    destruct ((guard && no_value V s) || negb (up_to_date ig fs s k)).
    - destruct (f_load fs k) as [[v inc]|] eqn:L; cbn [fst].
      + right. exists fs, k, v, inc. auto.
      + left. reflexivity.
    - cbn [fst]. apply (finv_mono P); [|exact Hi]. auto.
  Qed.

  Lemma current_spec : forall (fs fs0 : FS) files, current fs (stamps_of fs0 files) = true ->
    forall f, In f files -> f_stamp fs f <= f_stamp fs0 f.
  Proof.
    intros fs fs0 files H f Hin. unfold current, stamps_of in H. rewrite forallb_forall in H.
    specialize (H (f, f_stamp fs0 f)). cbn [fst snd] in H. apply N.leb_le. apply H.
    apply in_map_iff. exists f. auto.
  Qed.

  (* with file times checked, under the file-system assumption: the answer is what the files give NOW *)
  Theorem L_timed_answer_is_fresh : forall guard (P : FS -> Prop) (fs : FS) (s : SL) k, finv P s -> faithful P fs ->
    snd (fst (fcheck false guard fs s k)) = option_map fst (f_load fs k).
  Proof.
    intros guard P fs s k Hi Hf. unfold fcheck.
    destruct Hi as [E|[fs0 [k0 [v [inc [Hp [Hl Hs]]]]]]].
    - subst s. unfold up_to_date. cbn [fs_files fempty negb]. rewrite Bool.orb_true_r.
      destruct (f_load fs k) as [[v inc]|]; reflexivity.
    - subst s. unfold no_value, up_to_date. cbn [fs_files fs_val stamps_of map]. rewrite Bool.andb_false_r. cbn [orb].
      destruct (str_eqb k k0) eqn:E; cbn [andb negb].
      + apply str_eqb_eq in E. subst k0.
        destruct (f_stamp fs0 k =? 0) eqn:Z; cbn [negb andb].
        * destruct (f_load fs k) as [[v' inc']|]; reflexivity.
        * destruct (current fs ((k, f_stamp fs0 k) :: map (fun f => (f, f_stamp fs0 f)) inc)) eqn:Cu; cbn [negb].
          -- cbn [fst snd fs_val]. apply N.eqb_neq in Z.
             rewrite (Hf fs0 k v inc Hp Hl Z (current_spec fs fs0 (k :: inc) Cu)). reflexivity.
          -- destruct (f_load fs k) as [[v' inc']|]; reflexivity.
      + destruct (f_load fs k) as [[v' inc']|]; reflexivity.
  Qed.

  (* with or without file times: re-pointing (asking for another head file than the one on record) gives the fresh load *)
  Theorem L_repoint_answer_is_fresh : forall ig guard (fs : FS) (s : SL) k,
    (forall k' t r, fs_files s = (k', t) :: r -> k' <> k) ->
    snd (fst (fcheck ig guard fs s k)) = option_map fst (f_load fs k).
  Proof.
    intros ig guard fs s k Hk. unfold fcheck, up_to_date. destruct (fs_files s) as [|[k' t] r] eqn:F.
    - cbn [negb]. rewrite Bool.orb_true_r. destruct (f_load fs k) as [[v inc]|]; reflexivity.
    - destruct (str_eqb k k') eqn:E.
      + apply str_eqb_eq in E. exfalso. apply (Hk k' t r eq_refl). symmetry. exact E.
      + cbn [andb negb]. rewrite Bool.orb_true_r. destruct (f_load fs k) as [[v inc]|]; reflexivity.
  Qed.

  (* whatever the mode: an answer is never a half-loaded table nor a table of another file -- it is a complete
     successful load of the file asked for, from the current file system or one of the past; and an error is returned
     only when loading the file NOW fails *)
  Theorem L_answer_is_a_load : forall ig guard (P : FS -> Prop) (fs : FS) (s : SL) k, finv P s ->
    match snd (fst (fcheck ig guard fs s k)) with
    | Some v => exists fs0 inc, (fs0 = fs \/ P fs0) /\ f_load fs0 k = Some (v, inc)
    | None => f_load fs k = None
    end.
  Proof.
    intros ig guard P fs s k Hi. unfold fcheck.
    destruct ((guard && no_value V s) || negb (up_to_date ig fs s k)) eqn:R.
    - destruct (f_load fs k) as [[v inc]|] eqn:L; cbn [fst snd]; [|reflexivity]. exists fs, inc. auto.
    - cbn [fst snd]. apply Bool.orb_false_iff in R. destruct R as [_ R]. apply Bool.negb_false_iff in R.
      destruct Hi as [E|[fs0 [k0 [v [inc [Hp [Hl Hs]]]]]]].
      + subst s. discriminate.
      + subst s. cbn [fs_val]. unfold up_to_date in R. cbn [fs_files stamps_of map] in R.
        apply andb_true_iff in R. destruct R as [E _]. apply str_eqb_eq in E. subst k0. exists fs0, inc. auto.
  Qed.

  (* a failed load is retried by the next check, whatever it asks for and in whatever mode *)
  Theorem L_failure_is_retried : forall ig guard (P : FS -> Prop) (fs : FS) (s : SL) k, finv P s -> snd (fst (fcheck ig guard fs s k)) = None ->
    fst (fst (fcheck ig guard fs s k)) = fempty /\
    forall ig' (fs' : FS) k', snd (fcheck ig' guard fs' fempty k') = true /\
                       snd (fst (fcheck ig' guard fs' fempty k')) = option_map fst (f_load fs' k').
  Proof.
    intros ig guard P fs s k Hi Hn. split.
    - unfold fcheck in *. destruct ((guard && no_value V s) || negb (up_to_date ig fs s k)) eqn:R.
      + destruct (f_load fs k) as [[v inc]|]; [discriminate | reflexivity].
      + cbn [fst snd] in *. destruct Hi as [E|[fs0 [k0 [v [inc [Hp [Hl Hs]]]]]]]; [exact E|]. subst s. discriminate.
    - intros ig' fs' k'. unfold fcheck, up_to_date. cbn [fs_files fempty negb]. rewrite Bool.orb_true_r.
      destruct (f_load fs' k') as [[v inc]|]; auto.
  Qed.

  (* whole histories, of any length, with file times checked at every call *)
  Theorem L_timed_history_is_fresh : forall guard (h : list (call V)) past (s : SL), finv (fun x => In x past) s -> faithful_hist past h ->
    forallb timed h = true -> map fst (snd (frun guard s h)) = map fresh h.
  Proof.
    intros guard. induction h as [|[[ig fs] k] r IH]; intros past s Hi Hf Ht; [reflexivity|].
    cbn [forallb timed] in Ht. apply andb_true_iff in Ht. destruct Ht as [Hig Ht].
    apply Bool.negb_true_iff in Hig. subst ig. cbn [faithful_hist] in Hf. destruct Hf as [Hf1 Hf2].
    cbn [frun]. pose proof (L_timed_answer_is_fresh guard _ fs s k Hi Hf1) as A.
    pose proof (fcheck_inv false guard _ fs s k Hi) as I1.
    destruct (fcheck false guard fs s k) as [[s1 v] b]. cbn [fst snd] in A, I1.
    assert (I2 : finv (fun x => In x (fs :: past)) s1).
    { apply (finv_mono (fun x => x = fs \/ In x past)); [|exact I1]. intros x [E|Hx]; [left; auto | right; exact Hx]. }
    specialize (IH (fs :: past) s1 I2 Hf2 Ht). destruct (frun guard s1 r) as [s2 out].
    cbn [snd map fst fresh] in *. rewrite A, IH. reflexivity.
  Qed.

  (* whole histories in ANY mix of modes: every answer is a complete load of the file asked for (now or earlier), every
     error a present failure *)
  Fixpoint answers_ok (past : list FS) (h : list (call V)) (out : list (option V * bool)) : Prop :=
    match h, out with
    | [], [] => True
    | (_, fs, k) :: r, (a, _) :: o =>
        match a with
        | Some v => exists fs0 inc, In fs0 (fs :: past) /\ f_load fs0 k = Some (v, inc)
        | None => f_load fs k = None
        end /\ answers_ok (fs :: past) r o
    | _, _ => False
    end.
  Theorem L_history_answers_are_loads : forall guard (h : list (call V)) past (s : SL), finv (fun x => In x past) s ->
    answers_ok past h (snd (frun guard s h)).
  Proof.
    intros guard. induction h as [|[[ig fs] k] r IH]; intros past s Hi; [exact I|].
    cbn [frun]. pose proof (L_answer_is_a_load ig guard _ fs s k Hi) as A.
    pose proof (fcheck_inv ig guard _ fs s k Hi) as I1.
    destruct (fcheck ig guard fs s k) as [[s1 v] b]. cbn [fst snd] in A, I1.
    assert (I2 : finv (fun x => In x (fs :: past)) s1).
    { apply (finv_mono (fun x => x = fs \/ In x past)); [|exact I1]. intros x [E|Hx]; [left; auto | right; exact Hx]. }
    specialize (IH (fs :: past) s1 I2). destruct (frun guard s1 r) as [s2 out]. cbn [snd answers_ok]. split; [|exact IH].
    destruct v as [v|]; [|exact A]. destruct A as [fs0 [inc [Hin Hl]]]. exists fs0, inc. split; [|exact Hl].
    destruct Hin as [E|Hp]; [left; auto | right; exact Hp].
  Qed.
End Proofs.

(* the variant that keeps the record after a failed load: re-pointing to a broken rules directory and back answers
   with the cleared table although the file loads *)
Definition demo_fs : fsys N :=
  FSys (fun k => match k with [1] => Some (1, []) | _ => None end) (fun _ => 5).
Lemma L_kept_record_is_stale :
  let '(s1, _, _) := fcheck_keep true false demo_fs fempty [1] in    (* the good directory: loads *)
  let '(s2, v2, _) := fcheck_keep true false demo_fs s1 [2] in       (* re-pointed to a broken one: error *)
  let '(_, v3, b3) := fcheck_keep true false demo_fs s2 [1] in       (* back to the good one *)
  v2 = None /\ v3 = None /\ b3 = false /\ option_map fst (f_load demo_fs [1]) = Some 1.
Proof. vm_compute. auto. Qed.
(* ... and the repaired check on the same history *)
Lemma L_cleared_record_recovers :
  let '(s1, _, _) := fcheck true false demo_fs fempty [1] in
  let '(s2, v2, _) := fcheck true false demo_fs s1 [2] in
  let '(_, v3, b3) := fcheck true false demo_fs s2 [1] in
  v2 = None /\ v3 = Some 1 /\ b3 = true.
Proof. vm_compute. auto. Qed.
