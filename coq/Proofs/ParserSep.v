(* C03 proofs, part 5: consequences of row well-formedness that the property states separately: no two neighbouring
   operands, and the shape of fenced rows. *)
From MC Require Import Lib.Base Lib.Tree Gen.OpDict Model.ParserCore Model.ParserSpec Proofs.ParserP.
Local Open Scope N_scope.

Definition sep2 (a b : ptree) : bool := negb (ann_none a && ann_none b).

Lemma sep_snoc : forall l y x, separatedb ((l ++ [y]) ++ [x]) = separatedb (l ++ [y]) && sep2 y x.
Proof.
  induction l as [|a l IH]; intros y x.
  - cbn. unfold sep2. destruct (ann_none y), (ann_none x); reflexivity.
  - destruct l as [|b l].
    + cbn. unfold sep2. destruct (ann_none a), (ann_none y), (ann_none x); reflexivity.
    + change (((a :: b :: l) ++ [y]) ++ [x]) with (a :: b :: ((l ++ [y]) ++ [x])).
      change ((a :: b :: l) ++ [y]) with (a :: b :: (l ++ [y])).
      change (separatedb (a :: b :: (l ++ [y]) ++ [x])) with (negb (ann_none a && ann_none b) && separatedb (b :: (l ++ [y]) ++ [x])).
      change (separatedb (a :: b :: l ++ [y])) with (negb (ann_none a && ann_none b) && separatedb (b :: l ++ [y])).
      specialize (IH y x). change (((b :: l) ++ [y]) ++ [x]) with (b :: (l ++ [y]) ++ [x]) in IH.
      change ((b :: l) ++ [y]) with (b :: l ++ [y]) in IH. rewrite IH. rewrite andb_assoc. reflexivity.
Qed.

Lemma sep2_sym : forall a b, sep2 a b = sep2 b a.
Proof. intros. unfold sep2. rewrite andb_comm. reflexivity. Qed.

Lemma separatedb_rev : forall l, separatedb (rev l) = separatedb l.
Proof.
  induction l as [|a l IH]; [reflexivity|]. cbn [rev]. destruct l as [|b l]; [reflexivity|].
  cbn [rev] in *. rewrite sep_snoc. rewrite IH. cbn [separatedb]. fold (sep2 a b). rewrite sep2_sym. apply andb_comm.
Qed.

Lemma inrowb_sep : forall r c k, inrowb r c k = true -> separatedb k = true.
Proof.
  intros r c k. remember (List.length k) as n eqn:Hn. revert k Hn.
  induction n as [n IH] using (well_founded_induction lt_wf). intros k Hn H.
  destruct (inrowb_inv _ _ _ H) as [o [oi [e [k' [-> [A [B [C [D [E F]]]]]]]]]].
  cbn [separatedb]. unfold ann_none at 1. rewrite A. cbn [andb negb].
  destruct F as [->|F]; [reflexivity|].
  destruct (inrowb_inv _ _ _ F) as [o2 [oi2 [e2 [k2 [-> [A2 _]]]]]].
  change (separatedb (e :: o2 :: e2 :: k2)) with (negb (ann_none e && ann_none o2) && separatedb (o2 :: e2 :: k2)).
  unfold ann_none at 2. rewrite A2. rewrite andb_false_r. cbn [negb andb].
  eapply IH; [| reflexivity | exact F]. subst n. cbn [List.length]. lia.
Qed.

Lemma rowr_okb_sep : forall k, rowr_okb k = true -> separatedb k = true.
Proof.
  intros k H. unfold rowr_okb in H.
  destruct k as [|e [|o rest]]; try discriminate.
  destruct rest as [|x rest].
  - cbn [separatedb]. unfold ann_none. destruct (pann o), (pann e); try discriminate; reflexivity.
  - destruct (pann (last (x :: rest) o)) as [l|] eqn:EL.
    + repeat rewrite andb_true_iff in H. destruct H as [[[_ R1] R2] R3]. destruct rest as [|y rest]; [|discriminate].
      cbn [separatedb]. unfold ann_none in *. destruct (pann e); [|discriminate]. destruct (pann o); [discriminate|].
      cbn [last] in EL. rewrite EL. reflexivity.
    + apply andb_true_iff in H. destruct H as [He H]. destruct (pann o) as [c|] eqn:Eo; [|discriminate].
      apply andb_true_iff in H. destruct H as [_ H].
      change (separatedb (e :: o :: x :: rest)) with (negb (ann_none e && ann_none o) && separatedb (o :: x :: rest)).
      unfold ann_none at 2. rewrite Eo. rewrite andb_false_r. cbn [negb andb]. eapply inrowb_sep; eauto.
Qed.

(* in a well-formed row no two neighbouring children are both operands *)
Lemma row_ok_separated : forall t, row_okb t = true -> separatedb (pkids t) = true.
Proof.
  intros t H. unfold row_okb in H. apply rowr_okb_sep in H. rewrite separatedb_rev in H. exact H.
Qed.

(* a well-formed row that starts with a left fence is  l r,  l e  or  l e r  with r a right fence *)
Definition fenced_shapeb (k : list ptree) : bool :=
  match k with
  | [l; b] => match pann b with Some r => is_right_fence r | None => true end
  | [l; e; r] => ann_none e && match pann r with Some rf => is_right_fence rf | None => false end
  | _ => false
  end.

Lemma rowr_fenced_len : forall k d lf, rowr_okb k = true -> pann (last k d) = Some lf ->
  (List.length k = 2 \/ List.length k = 3)%nat.
Proof.
  intros k d lf H L. destruct k as [|e [|o rest]]; try discriminate. destruct rest as [|x rest]; [left; reflexivity|].
  right. do 2 rewrite last_shift in L. unfold rowr_okb in H. rewrite L in H.
  repeat rewrite andb_true_iff in H. destruct H as [[[_ H] _] _]. destruct rest; [reflexivity | discriminate].
Qed.

Lemma row_ok_fenced : forall t l lf rest, pkids t = l :: rest -> pann l = Some lf -> is_left_fence lf = true ->
  row_okb t = true -> fenced_shapeb (pkids t) = true.
Proof.
  intros t l lf rest K A Lf H. unfold row_okb in H.
  assert (LL : pann (last (rev (pkids t)) l) = Some lf).
  { rewrite K. cbn [rev]. rewrite last_last. exact A. }
  pose proof (rowr_fenced_len _ _ _ H LL) as Len. rewrite rev_length, K in Len. rewrite K in *. cbn [List.length] in Len.
  destruct rest as [|b [|c [|d rest]]]; cbn [List.length] in Len; try (exfalso; lia).
  - cbn [rev app] in H. unfold rowr_okb in H. rewrite A in H. cbn [fenced_shapeb].
    destruct (pann b); [|reflexivity]. apply andb_true_iff in H. apply H.
  - cbn [rev app] in H. unfold rowr_okb in H. cbn [last] in H. rewrite A in H. cbn [fenced_shapeb].
    repeat rewrite andb_true_iff in H. destruct H as [[[_ _] R] E]. rewrite E. exact R.
Qed.
