(* C01 proofs: the mrow parser (Model/ParserCore.v + Model/Parser.v) neither loses nor invents text.  For EVERY tree:
   the texts of the result, in document order, are the texts of the input (each token canonicalized on its own) plus
   inserted invisible operators -- whatever the classifier decides. *)
From MC Require Import Lib.Base Lib.Tree Gen.OpDict Model.ParserCore Model.Parser Proofs.ParserP.
From Coq Require Import String.
Local Close Scope string_scope.
Local Open Scope N_scope.

(* the texts of the childless nodes, in document order *)
Fixpoint texts (t : ptree) : list str :=
  match t with
  | PT _ _ _ k x =>
      match k with
      | [] => [x]
      | _ => (fix go (l : list ptree) : list str := match l with [] => [] | c :: r => texts c ++ go r end) k
      end
  end.
Definition texts_list (l : list ptree) : list str := flat_map texts l.

Lemma texts_go : forall l,
  (fix go (l : list ptree) : list str := match l with [] => [] | c :: r => texts c ++ go r end) l = texts_list l.
Proof. induction l as [|y l IH]; [reflexivity|]. unfold texts_list in *. cbn [flat_map]. rewrite IH. reflexivity. Qed.

Lemma texts_unfold : forall a g at_ k x, texts (PT a g at_ k x) = match k with [] => [x] | _ => texts_list k end.
Proof.
  intros. destruct k as [|c r]; [reflexivity|].
  change (texts (PT a g at_ (c :: r) x)) with
    ((fix go (l : list ptree) : list str := match l with [] => [] | c :: r => texts c ++ go r end) (c :: r)).
  apply texts_go.
Qed.

Definition is_inv_text (s : str) : bool :=
  match s with [] => true | [c] => (0x2061 <=? c) && (c <=? 0x2064) | _ => false end.
Definition strip (l : list str) : list str := filter (fun s => negb (is_inv_text s)) l.
Lemma strip_app : forall a b, strip (a ++ b) = strip a ++ strip b.
Proof. intros. unfold strip. apply filter_app. Qed.

Lemma texts_set_ann : forall a t, texts (set_ann a t) = texts t.
Proof. intros a [a0 g at_ k x]. reflexivity. Qed.
Lemma texts_set_attrs : forall a t, texts (set_attrs a t) = texts t.
Proof. intros a [a0 g at_ k x]. reflexivity. Qed.
Lemma texts_set_tag : forall g t, texts (set_tag g t) = texts t.
Proof. intros g [a0 g0 at_ k x]. reflexivity. Qed.

Lemma texts_list_app : forall a b, texts_list (a ++ b) = texts_list a ++ texts_list b.
Proof. intros. unfold texts_list. apply flat_map_app. Qed.

Lemma texts_list_snoc : forall l c, texts_list (l ++ [c]) = texts_list l ++ texts c.
Proof. intros. rewrite texts_list_app. unfold texts_list at 2. cbn [flat_map]. rewrite app_nil_r. reflexivity. Qed.
Lemma texts_list_one : forall c, texts_list [c] = texts c.
Proof. intros. unfold texts_list. cbn [flat_map]. apply app_nil_r. Qed.

Lemma texts_nonempty : forall a g at_ k x, k <> [] -> texts (PT a g at_ k x) = texts_list k.
Proof. intros a g at_ k x H. rewrite texts_unfold. destruct k; [congruence | reflexivity]. Qed.

Lemma texts_mk_row : forall k, k <> [] -> texts (mk_row k) = texts_list (rev k).
Proof.
  intros k H. unfold mk_row. rewrite texts_unfold. destruct (rev k) eqn:E; [|reflexivity].
  exfalso. apply H. rewrite <- (rev_involutive k), E. reflexivity.
Qed.

(* ---- the stack ---- *)
Definition frame_yield (f : frame) : list str := texts_list (rev (f_kids f)).
Definition stack_yield (st : stack) : list str := flat_map frame_yield (rev st).

Lemma stack_yield_cons : forall f st, stack_yield (f :: st) = stack_yield st ++ frame_yield f.
Proof. intros. unfold stack_yield. cbn [rev]. rewrite flat_map_app. cbn [flat_map]. rewrite app_nil_r. reflexivity. Qed.

Lemma add_child_yield : forall f c ch op f', add_child f c ch op = Ok f' -> frame_yield f' = frame_yield f ++ texts c.
Proof.
  intros f c ch op f' H. unfold add_child in H. destruct (ptr_eq op op_illegal).
  - destruct (f_operand f); [discriminate|]. inversion H; subst. unfold frame_yield. cbn [f_kids rev].
    rewrite texts_list_snoc, texts_set_ann. reflexivity.
  - inversion H; subst. unfold frame_yield. cbn [f_kids rev]. rewrite texts_list_snoc, texts_set_ann. reflexivity.
Qed.

Lemma add_to_top_yield : forall st c ch op st', add_to_top st c ch op = Ok st' -> stack_yield st' = stack_yield st ++ texts c.
Proof.
  intros st c ch op st' H. unfold add_to_top in H. destruct st as [|top rest]; [discriminate|].
  apply bind_ok in H. destruct H as [t' [A H]]. inversion H; subst. rewrite !stack_yield_cons.
  rewrite (add_child_yield _ _ _ _ _ A). apply app_assoc.
Qed.

Lemma remove_last_yield : forall f e f', remove_last_operand f = Ok (e, f') -> frame_yield f = frame_yield f' ++ texts e.
Proof.
  intros f e f' H. unfold remove_last_operand in H. destruct (f_kids f) as [|c r] eqn:K; [discriminate|].
  destruct (f_operand f || match r with [] => true | _ => false end); [|discriminate]. inversion H; subst.
  unfold frame_yield. rewrite K. cbn [f_kids rev]. apply texts_list_snoc.
Qed.

Lemma row_or_single_texts : forall k, texts (match k with [c] => c | ks => mk_row ks end) =
  match k with [] => [[]] | _ => texts_list (rev k) end.
Proof.
  intros [|c [|d r]].
  - reflexivity.
  - cbn [rev app]. rewrite texts_list_one. reflexivity.
  - apply texts_mk_row. discriminate.
Qed.

Lemma reduce_one_yield : forall st p st', reduce_one st = Ok (p, st') -> strip (stack_yield st') = strip (stack_yield st).
Proof.
  intros st p st' H. unfold reduce_one in H. destruct st as [|top [|below rest]]; try discriminate.
  apply bind_ok in H. destruct H as [b' [A H]]. inversion H; subst. rewrite !stack_yield_cons.
  rewrite (add_child_yield _ _ _ _ _ A). rewrite <- app_assoc. rewrite !strip_app. f_equal. f_equal.
  unfold frame_yield. destruct (f_kids top) as [|c [|d r]] eqn:K.
  - reflexivity.
  - cbn [rev app]. rewrite texts_list_one. reflexivity.
  - rewrite texts_mk_row by discriminate. reflexivity.
Qed.

Lemma reduce_loop_yield : forall fuel cur prev st st', reduce_loop fuel cur prev st = Ok st' ->
  strip (stack_yield st') = strip (stack_yield st).
Proof.
  induction fuel as [|fuel IH]; intros cur prev st st' H; cbn [reduce_loop] in H.
  - destruct (cur <? prev); [destruct st as [|a [|b r]]; try discriminate|]; inversion H; reflexivity.
  - destruct (cur <? prev); [|inversion H; reflexivity].
    destruct st as [|a [|b r]]; [| inversion H; reflexivity |].
    + cbn in H. discriminate.
    + apply bind_ok in H. destruct H as [[p s2] [R1 R2]]. cbn [fst snd] in R2.
      rewrite (IH _ _ _ _ R2). exact (reduce_one_yield _ _ _ R1).
Qed.

Lemma reduce_yield : forall cur st st', reduce cur st = Ok st' -> strip (stack_yield st') = strip (stack_yield st).
Proof. intros cur st st' H. unfold reduce in H. destruct st; [discriminate|]. eapply reduce_loop_yield; eauto. Qed.

(* potentially_lift_script moves children around without touching their order *)
Lemma lift_script_texts : forall m m', potentially_lift_script m = Ok m' -> texts m' = texts m.
Proof.
  intros m m' H. unfold potentially_lift_script in H.
  destruct (negb (tag_is m s_mrow)); [inversion H; reflexivity|].
  destruct (pkids m) as [|first rest] eqn:K; [discriminate|].
  destruct (rev (first :: rest)) as [|last before_rev] eqn:R; [discriminate|].
  destruct (tag_is first s_mo && is_fence_mo first && is_script_tag (ptag last)); [|inversion H; reflexivity].
  destruct (pkids last) as [|base scripts] eqn:KL; [discriminate|].
  destruct (tag_is base s_mo && is_fence_mo base); [|inversion H; reflexivity].
  inversion H; subst m'. clear H.
  rewrite texts_set_ann. destruct m as [ma mg mat mk mx]. destruct last as [la lg lat lk lx]. cbn [pkids set_kids pann] in *. subst mk lk.
  assert (E : first :: rest = rev before_rev ++ [PT la lg lat (base :: scripts) lx]).
  { rewrite <- (rev_involutive (first :: rest)), R. reflexivity. }
  rewrite (texts_nonempty la lg lat _ lx) by discriminate.
  rewrite (texts_nonempty ma mg mat (first :: rest) mx) by discriminate.
  change (texts_list (PT ma mg mat (rev before_rev ++ [set_ann la base]) mx :: scripts)) with
    (texts (PT ma mg mat (rev before_rev ++ [set_ann la base]) mx) ++ texts_list scripts).
  rewrite texts_nonempty by (destruct (rev before_rev); discriminate).
  rewrite E. rewrite !texts_list_snoc. rewrite texts_set_ann. rewrite (texts_nonempty la lg lat (base :: scripts) lx) by discriminate.
  change (texts_list (base :: scripts)) with (texts base ++ texts_list scripts). rewrite <- app_assoc. reflexivity.
Qed.

Lemma frame_yield_new : frame_yield new_frame = [].
Proof. reflexivity. Qed.
Lemma frame_yield_with_op : forall e ch op, frame_yield (with_op e ch op) = texts e.
Proof. intros. unfold frame_yield, with_op. cbn [f_kids rev app]. rewrite texts_list_one. apply texts_set_ann. Qed.
Lemma stack_yield_nil : stack_yield [] = [].
Proof. reflexivity. Qed.
Lemma add_child_kids : forall f c ch op f', add_child f c ch op = Ok f' -> f_kids f' <> [].
Proof.
  intros f c ch op f' A. unfold add_child in A. destruct (ptr_eq op op_illegal); [destruct (f_operand f); [discriminate|]|]; inversion A; discriminate.
Qed.
Lemma texts_frame_row : forall f, f_kids f <> [] -> texts (mk_row (f_kids f)) = frame_yield f.
Proof. intros f H. rewrite texts_mk_row by exact H. reflexivity. Qed.

Lemma shift_yield : forall st c ch op st2 c2 p2, shift st c ch op = Ok (st2, c2, p2) ->
  strip (stack_yield st2 ++ texts c2) = strip (stack_yield st ++ texts c).
Proof.
  intros st c ch op st2 c2 p2 H. unfold shift in H. destruct st as [|top rest]; [discriminate|].
  destruct (is_nary op (f_op top)); [inversion H; reflexivity|].
  destruct (null (f_kids top) || negb (f_operand top) && negb (is_right_fence op)).
  - inversion H; subst. rewrite (stack_yield_cons new_frame). rewrite frame_yield_new, app_nil_r. reflexivity.
  - destruct (is_right_fence op).
    + apply bind_ok in H. destruct H as [top' [A H]]. pose proof (add_child_yield _ _ _ _ _ A) as Y.
      pose proof (add_child_kids _ _ _ _ _ A) as KN.
      destruct (null rest) eqn:NR.
      * inversion H; subst. destruct rest; [|discriminate]. rewrite !stack_yield_cons, stack_yield_nil, frame_yield_new.
        cbn [app]. rewrite (texts_frame_row _ KN), Y. reflexivity.
      * apply bind_ok in H. destruct H as [m' [L H]]. inversion H; subst. rewrite (lift_script_texts _ _ L).
        rewrite (texts_frame_row _ KN), Y. rewrite stack_yield_cons. rewrite app_assoc. reflexivity.
    + destruct (is_postfix op).
      * apply bind_ok in H. destruct H as [[e t'] [RL H]]. cbn [fst snd] in H. apply bind_ok in H. destruct H as [nf [A H]].
        inversion H; subst. rewrite !stack_yield_cons. rewrite (remove_last_yield _ _ _ RL).
        rewrite (texts_frame_row _ (add_child_kids _ _ _ _ _ A)). rewrite (add_child_yield _ _ _ _ _ A), frame_yield_with_op.
        rewrite <- !app_assoc. reflexivity.
      * apply bind_ok in H. destruct H as [[e t'] [RL H]]. cbn [fst snd] in H. inversion H; subst.
        rewrite !stack_yield_cons. rewrite (remove_last_yield _ _ _ RL), frame_yield_with_op.
        rewrite <- !app_assoc. reflexivity.
Qed.

(* ---- decisions ---- *)
Fixpoint dec_texts (d : decision) : list str :=
  match d with
  | DOperand c => texts c
  | DSpace c => texts c
  | DJuxta imo _ _ c => texts imo ++ texts c
  | DOp c _ _ None => texts c
  | DOp c _ op (Some (imo, _, _)) =>
      (* the implied operator is inserted only before a prefix operator / left fence *)
      if negb (ptr_eq op op_illegal) && (is_left_fence op || is_prefix op) then texts imo ++ texts c else texts c
  | DPre d' => dec_texts d'
  end.
(* the implied operators are infix operators *)
Fixpoint implied_ok (d : decision) : Prop :=
  match d with
  | DJuxta _ _ iop _ => o_ty iop = 2
  | DOp _ _ _ (Some (_, _, iop)) => o_ty iop = 2
  | DPre d' => implied_ok d'
  | _ => True
  end.

Lemma push_implied_yield : forall st mo ch op st', o_ty op = 2 -> push_implied st mo ch op = Ok st' ->
  strip (stack_yield st') = strip (stack_yield st ++ texts mo).
Proof.
  intros st mo ch op st' Ht H. unfold push_implied in H. apply bind_ok in H. destruct H as [st1 [R H]].
  apply bind_ok in H. destruct H as [[[st2 c2] [ch2 op2]] [Sh H]].
  destruct (shift_ty2 _ _ _ _ _ _ _ _ Ht Sh) as [-> [-> ->]].
  destruct (negb (ptr_eq op op)); [discriminate|].
  rewrite (add_to_top_yield _ _ _ _ _ H). rewrite (shift_yield _ _ _ _ _ _ _ Sh).
  rewrite !strip_app. rewrite (reduce_yield _ _ _ R). reflexivity.
Qed.

Lemma act_yield : forall d st st', implied_ok d -> act st d = Ok st' ->
  strip (stack_yield st') = strip (stack_yield st ++ dec_texts d).
Proof.
  induction d as [c|c|imo ich iop c|c ch op implied|d IH]; intros st st' Hi H; cbn [act dec_texts implied_ok] in *.
  - rewrite (add_to_top_yield _ _ _ _ _ H). reflexivity.
  - rewrite (add_to_top_yield _ _ _ _ _ H). reflexivity.
  - apply bind_ok in H. destruct H as [st2 [P H]]. rewrite (add_to_top_yield _ _ _ _ _ H).
    rewrite strip_app, (push_implied_yield _ _ _ _ _ Hi P). rewrite <- strip_app, app_assoc. reflexivity.
  - destruct (ptr_eq op op_illegal).
    + rewrite (add_to_top_yield _ _ _ _ _ H). destruct implied as [[[imo ich] iop]|]; reflexivity.
    + destruct (is_left_fence op || is_prefix op).
      * apply bind_ok in H. destruct H as [st1 [P H]]. rewrite (add_to_top_yield _ _ _ _ _ H).
        rewrite stack_yield_cons, frame_yield_new, app_nil_r.
        destruct implied as [[[imo ich] iop]|].
        -- cbn [negb andb]. rewrite strip_app, (push_implied_yield _ _ _ _ _ Hi P). rewrite <- strip_app, app_assoc. reflexivity.
        -- inversion P; subst. reflexivity.
      * apply bind_ok in H. destruct H as [st1 [R H]]. apply bind_ok in H. destruct H as [[[st2 c2] [ch2 op2]] [Sh H]].
        rewrite (add_to_top_yield _ _ _ _ _ H). rewrite (shift_yield _ _ _ _ _ _ _ Sh).
        rewrite !strip_app, (reduce_yield _ _ _ R).
        destruct implied as [[[imo ich] iop]|]; reflexivity.
  - apply bind_ok in H. destruct H as [[p s1] [R H]]. cbn [snd] in H. rewrite (IH _ _ Hi H).
    rewrite !strip_app, (reduce_one_yield _ _ _ R). reflexivity.
Qed.

(* ---- the classifier only inserts invisible operators ---- *)
Lemma texts_map_base : forall f, (forall b, texts (f b) = texts b) -> forall c, texts (map_base f c) = texts c.
Proof.
  intros f Hf. fix IH 1. intros [a g at_ k x]. cbn [map_base]. destruct (is_modified_tag g); [|apply Hf].
  destruct k as [|c r]; [apply Hf|]. rewrite !texts_nonempty by discriminate.
  change (texts_list (map_base f c :: r)) with (texts (map_base f c) ++ texts_list r). rewrite IH. reflexivity.
Qed.

Lemma texts_with_guess : forall l m, texts (with_guess l m) = texts m.
Proof. intros [| |] m; cbn [with_guess]; try reflexivity. apply texts_set_attrs. Qed.

Lemma implied_ops_infix :
  o_ty op_fn_app = 2 /\ o_ty op_times = 2 /\ o_ty op_iplus = 2 /\ o_ty op_comma = 2 /\ o_ty op_sep_high = 2 /\ o_ty op_times_high = 2.
Proof. repeat split; vm_compute; reflexivity. Qed.

Lemma rename_was_mo_texts : forall b, texts (rename_was_mo b) = texts b.
Proof.
  intro b. unfold rename_was_mo. destruct (pattr s_changed b); [|reflexivity].
  destruct (str_eqb _ _); [|reflexivity]. rewrite texts_set_tag, texts_set_attrs. reflexivity.
Qed.

Lemma classify_op_yield : forall st prev c ch op rest d, classify_op st prev c ch op rest = Ok d ->
  strip (dec_texts d) = strip (texts c) /\ implied_ok d.
Proof.
  intros st prev c ch op rest d H. unfold classify_op in H. destruct implied_ops_infix as [T1 [T2 _]].
  destruct (ptr_eq op op_illegal) eqn:Ei; [inversion H; subst; split; [reflexivity | exact I]|].
  apply bind_ok in H. destruct H as [top [_ H]].
  destruct (is_left_fence op || is_prefix op) eqn:Ep.
  - destruct (f_operand top); [|inversion H; subst; split; [reflexivity | exact I]].
    destruct prev as [p|]; [|discriminate]. apply bind_ok in H. destruct H as [lfn [_ H]].
    destruct (is_ctrue lfn); inversion H; subst; cbn [dec_texts implied_ok]; rewrite Ei, Ep; cbn [negb andb];
      rewrite texts_with_guess; (split; [reflexivity | assumption]).
  - inversion H; subst. split; [reflexivity | exact I].
Qed.

Lemma classify_yield : forall rc st prev c rest d, classify rc st prev c rest = Ok d ->
  strip (dec_texts d) = strip (texts c) /\ implied_ok d.
Proof.
  intros rc st prev c rest d H. unfold classify in H. destruct implied_ops_infix as [T1 [T2 [T3 [T4 [T5 T6]]]]].
  apply bind_ok in H. destruct H as [top [_ H]].
  destruct (tag_is (emb_base c) s_mo && negb (str_eqb (ptext (emb_base c)) nbsp)).
  - apply bind_ok in H. destruct H as [op0 [_ H]]. apply bind_ok in H. destruct H as [op1 [_ H]].
    eapply classify_op_yield; eauto.
  - destruct (last_child top) as [pc|]; [|inversion H; subst; split; [reflexivity | exact I]].
    destruct (tag_is (emb_base pc) s_mo); [inversion H; subst; split; [reflexivity | exact I]|].
    apply bind_ok in H. destruct H as [lfn [_ H]].
    destruct (tag_is (emb_base c) s_mtext && str_eqb (ptext (emb_base c)) nbsp).
    + inversion H; subst. cbn [dec_texts implied_ok]. split; [|exact I]. rewrite texts_map_base; [reflexivity|].
      intro b. rewrite texts_set_tag, texts_set_attrs. reflexivity.
    + apply bind_ok in H. destruct H as [[[ich iop] pre] [Hc H]].
      assert (Hch : o_ty iop = 2 /\ strip [ich] = []).
      { destruct (is_ctrue lfn); [inversion Hc; subst; split; [exact T1 | reflexivity]|].
        apply bind_ok in Hc. destruct Hc as [mf [_ Hc]]. destruct mf; [inversion Hc; subst; split; [exact T3 | reflexivity]|].
        destruct (is_implied_comma pc c rc); [inversion Hc; subst; split; [exact T4 | reflexivity]|].
        destruct (is_implied_separator pc c); [inversion Hc; subst; split; [exact T5 | reflexivity]|].
        apply bind_ok in Hc. destruct Hc as [ta [_ Hc]]. destruct (fst ta); inversion Hc; subst; split; auto. }
      destruct Hch as [Hty Hs].
      assert (T : texts (map_base rename_was_mo c) = texts c) by (apply texts_map_base; exact rename_was_mo_texts).
      destruct (tag_is (emb_base (map_base rename_was_mo c)) s_mo).
      * apply bind_ok in H. destruct H as [st1 [_ H]]. apply bind_ok in H. destruct H as [d0 [Hd H]].
        destruct (classify_op_yield _ _ _ _ _ _ _ Hd) as [Y1 Y2]. rewrite T in Y1.
        destruct pre; inversion H; subst; cbn [dec_texts implied_ok]; auto.
      * destruct pre; inversion H; subst; cbn [dec_texts implied_ok]; rewrite texts_with_guess, T;
          (split; [|exact Hty]); change (texts (create_mo ich)) with [ich]; rewrite strip_app, Hs; reflexivity.
Qed.

(* ---- a row, a tree ---- *)
Lemma step_yield : forall rc st prev c rest st', step rc st prev c rest = Ok st' ->
  strip (stack_yield st') = strip (stack_yield st ++ texts c).
Proof.
  intros rc st prev c rest st' H. unfold step in H. apply bind_ok in H. destruct H as [d [Hc Ha]].
  destruct (classify_yield _ _ _ _ _ _ Hc) as [Y1 Y2]. rewrite (act_yield _ _ _ Y2 Ha). rewrite !strip_app, Y1. reflexivity.
Qed.

Lemma row_loop_yield : forall (cn : ptree -> res ptree) (g : ptree -> list str) rc rest st prev st',
  (forall c c', In c rest -> cn c = Ok c' -> strip (texts c') = strip (g c)) ->
  row_loop cn rc st prev rest = Ok st' ->
  strip (stack_yield st') = strip (stack_yield st ++ flat_map g rest).
Proof.
  intros cn g rc rest. induction rest as [|c rest IH]; intros st prev st' Hg H; cbn [row_loop] in H.
  - inversion H; subst. cbn [flat_map]. rewrite app_nil_r. reflexivity.
  - apply bind_ok in H. destruct H as [c' [Hc H]]. apply bind_ok in H. destruct H as [st1 [Hs H]].
    rewrite (IH _ _ _ (fun x x' Hin => Hg x x' (or_intror Hin)) H). cbn [flat_map].
    rewrite !strip_app. rewrite (step_yield _ _ _ _ _ _ Hs). rewrite strip_app.
    rewrite (Hg c c' (or_introl eq_refl) Hc). rewrite <- app_assoc. reflexivity.
Qed.

Lemma texts_add_attrs : forall t a, texts (add_attrs t a) = texts t.
Proof. intros. unfold add_attrs. apply texts_set_attrs. Qed.

Lemma texts_finish_attrs : forall parsed mrow merged, texts (finish_attrs parsed mrow merged) = texts parsed.
Proof.
  intros parsed mrow merged. unfold finish_attrs. destruct merged; rewrite ?texts_set_attrs, texts_add_attrs, texts_set_attrs; reflexivity.
Qed.

Lemma finish_row_yield : forall mrow st t, finish_row mrow st = Ok t -> strip (texts t) = strip (stack_yield st).
Proof.
  intros mrow st t H. unfold finish_row in H. apply bind_ok in H. destruct H as [st1 [R H]].
  rewrite <- (reduce_yield _ _ _ R). destruct st1 as [|top [|x r]]; try discriminate.
  inversion H; subst t. clear H. rewrite texts_set_ann, texts_finish_attrs.
  rewrite stack_yield_cons, stack_yield_nil. cbn [app]. unfold frame_yield.
  destruct (f_kids top) as [|c [|d r]] eqn:K.
  - reflexivity.
  - destruct (negb (List.length (pkids mrow) =? 1)%nat || negb (has_attr s_intent mrow)).
    + cbn [rev app]. rewrite texts_list_one. reflexivity.
    + rewrite texts_mk_row by discriminate. reflexivity.
  - rewrite texts_mk_row by discriminate. reflexivity.
Qed.

(* the texts of the input, each token canonicalized where it stands (for an element that is not a token, only a
   childless one has a text of its own; an mrow never has) *)
Fixpoint ctexts (parent : str) (idx : nat) (t : ptree) : list str :=
  match t with
  | PT _ g _ k x =>
      if str_eqb g s_mi || str_eqb g s_ms || str_eqb g s_mtext || str_eqb g s_mspace || str_eqb g s_mo || str_eqb g s_mn
      then texts (canon_leaf parent (idx =? 0)%nat t)
      else if str_eqb g s_mrow then
        (fix go (l : list ptree) : list str := match l with [] => [] | c :: r => ctexts s_mrow 0%nat c ++ go r end) k
      else
        match k with
        | [] => [x]
        | _ => (fix go (i : nat) (l : list ptree) : list str :=
                  match l with [] => [] | c :: r => ctexts g i c ++ go (Datatypes.S i) r end) 0%nat k
        end
  end.

Theorem canon_yield : forall fuel parent idx t t', canon fuel parent idx t = Ok t' ->
  strip (texts t') = strip (ctexts parent idx t).
Proof.
  induction fuel as [|fuel IH]; intros parent idx t t' H; [discriminate|].
  destruct t as [a g at_ k x]. cbn [canon ptag] in H. cbn [ctexts].
  destruct (str_eqb g s_mi || str_eqb g s_ms || str_eqb g s_mtext || str_eqb g s_mspace || str_eqb g s_mo || str_eqb g s_mn).
  - inversion H; subst. reflexivity.
  - destruct (str_eqb g s_mrow).
    + unfold parse_row in H. apply bind_ok in H. destruct H as [st [R H]]. rewrite (finish_row_yield _ _ _ H).
      cbn [pkids] in R.
      rewrite (row_loop_yield _ (ctexts s_mrow 0%nat) _ _ _ _ _ (fun c c' _ Hc => IH _ _ _ _ Hc) R).
      rewrite stack_yield_cons, stack_yield_nil, frame_yield_new. cbn [app]. reflexivity.
    + apply bind_ok in H. destruct H as [ks [Hk H]]. inversion H; subst t'. clear H. cbn [set_kids pkids] in *.
      assert (G : forall (l : list ptree) (i : nat) ks,
                 (fix go (i : nat) (l : list ptree) : res (list ptree) :=
                    match l with
                    | [] => Ok []
                    | c :: r => do c' <- canon fuel g i c; do r' <- go (Datatypes.S i) r; Ok (c' :: r')
                    end) i l = Ok ks ->
                 strip (texts_list ks) =
                 strip ((fix go (i : nat) (l : list ptree) : list str :=
                           match l with [] => [] | c :: r => ctexts g i c ++ go (Datatypes.S i) r end) i l) /\
                 (l = [] <-> ks = [])).
      { induction l as [|c r IHl]; intros i ks0 Hl.
        - inversion Hl; subst. split; [reflexivity | tauto].
        - apply bind_ok in Hl. destruct Hl as [c' [Hc Hl]]. apply bind_ok in Hl. destruct Hl as [r' [Hr Hl]].
          inversion Hl; subst ks0. split; [|split; discriminate].
          change (texts_list (c' :: r')) with (texts c' ++ texts_list r'). rewrite !strip_app.
          rewrite (IH _ _ _ _ Hc). destruct (IHl _ _ Hr) as [E _]. rewrite E. reflexivity. }
      destruct (G k 0%nat ks Hk) as [E [N1 N2]].
      destruct k as [|c r].
      * rewrite (N1 eq_refl). reflexivity.
      * destruct ks as [|c' r']; [exfalso; assert (X : c :: r = []) by (apply N2; reflexivity); discriminate|].
        rewrite texts_nonempty by discriminate. exact E.
Qed.
