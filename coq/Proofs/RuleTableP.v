(* the rule table (Model/RuleTable.v): names are unique under a tag, a later definition replaces the earlier one where
   it stands and is the one in force, the first candidate whose match holds is the rule applied *)
From MC Require Import Lib.Base Model.RuleTable.
Local Open Scope N_scope.

Lemma str_eqb_neq a b : str_eqb a b = false <-> a <> b.
Proof.
  split; intros H.
  - intros E. apply str_eqb_eq in E. congruence.
  - destruct (str_eqb a b) eqn:E; [apply str_eqb_eq in E; contradiction|reflexivity].
Qed.

(* ---- put ---- *)
Lemma put_names r rs x : In x (map r_name (put r rs)) <-> x = r_name r \/ In x (map r_name rs).
Proof.
  induction rs as [|r0 rs IH]; cbn [put map In].
  - split; [intros [H|[]]; left; symmetry; exact H|intros [H|[]]; left; symmetry; exact H].
  - destruct (str_eqb (r_name r0) (r_name r)) eqn:E; cbn [map In].
    + apply str_eqb_eq in E. rewrite E. split; [intros [H|H]; [left; symmetry; exact H|right; right; exact H]|
                                                 intros [H|[H|H]]; [left; symmetry; exact H|left; exact H|right; exact H]].
    + rewrite IH. tauto.
Qed.

Lemma put_nodup r rs : NoDup (map r_name rs) -> NoDup (map r_name (put r rs)).
Proof.
  induction rs as [|r0 rs IH]; cbn [put map]; intros H.
  - constructor; [intros []|constructor].
  - inversion H as [|? ? Hn Hd]; subst. destruct (str_eqb (r_name r0) (r_name r)) eqn:E; cbn [map].
    + apply str_eqb_eq in E. rewrite <- E. constructor; assumption.
    + constructor; [|apply IH; exact Hd]. rewrite put_names. intros [Hx|Hx]; [|contradiction].
      apply str_eqb_neq in E. congruence.
Qed.

Lemma put_in r rs : In r (put r rs).
Proof. induction rs as [|r0 rs IH]; cbn [put]; [left; reflexivity|]. destruct (str_eqb _ _); [left; reflexivity|right; exact IH]. Qed.

Lemma put_keeps r r' rs : In r rs -> r_name r' <> r_name r -> In r (put r' rs).
Proof.
  induction rs as [|r0 rs IH]; cbn [put In]; [tauto|]. intros [H|H] Hn.
  - subst r0. destruct (str_eqb (r_name r) (r_name r')) eqn:E; [apply str_eqb_eq in E; congruence|left; reflexivity].
  - destruct (str_eqb (r_name r0) (r_name r')); [right; exact H|right; apply IH; assumption].
Qed.

(* a redefinition takes the place of the rule it replaces *)
Theorem L_redefinition_keeps_the_place : forall r r0 a b, r_name r0 = r_name r -> ~ In (r_name r) (map r_name a) ->
  put r (a ++ r0 :: b) = a ++ r :: b.
Proof.
  intros r r0 a b Hn. induction a as [|x a IH]; cbn [app put map In]; intros Ha.
  - rewrite Hn, str_eqb_refl. reflexivity.
  - destruct (str_eqb (r_name x) (r_name r)) eqn:E; [apply str_eqb_eq in E; exfalso; apply Ha; left; exact E|].
    rewrite IH; [reflexivity|]. intros H. apply Ha. right. exact H.
Qed.

(* a new name goes to the end *)
Theorem L_new_rule_goes_last : forall r rs, ~ In (r_name r) (map r_name rs) -> put r rs = rs ++ [r].
Proof.
  intros r. induction rs as [|x rs IH]; cbn [put map In app]; intros H; [reflexivity|].
  destruct (str_eqb (r_name x) (r_name r)) eqn:E; [apply str_eqb_eq in E; exfalso; apply H; left; exact E|].
  rewrite IH; [reflexivity|]. intros Hx. apply H. right. exact Hx.
Qed.

(* ---- the table ---- *)
Definition Inv (t : table) : Prop := forall g, NoDup (map r_name (get t g)).

Lemma get_add_same t r : get (add_rule t r) (r_tag r) = put r (get t (r_tag r)).
Proof.
  induction t as [|[g rs] t IH]; cbn [add_rule get].
  - rewrite str_eqb_refl. reflexivity.
  - destruct (str_eqb g (r_tag r)) eqn:E; cbn [get]; rewrite E; [reflexivity|exact IH].
Qed.

Lemma get_add_other t r g : g <> r_tag r -> get (add_rule t r) g = get t g.
Proof.
  intros Hg. induction t as [|[g' rs] t IH]; cbn [add_rule get].
  - destruct (str_eqb (r_tag r) g) eqn:E; [apply str_eqb_eq in E; congruence|reflexivity].
  - destruct (str_eqb g' (r_tag r)) eqn:E; cbn [get].
    + apply str_eqb_eq in E. subst g'. destruct (str_eqb (r_tag r) g) eqn:E2; [apply str_eqb_eq in E2; congruence|reflexivity].
    + destruct (str_eqb g' g); [reflexivity|exact IH].
Qed.

Lemma add_rule_inv t r : Inv t -> Inv (add_rule t r).
Proof.
  intros H g. destruct (str_eqb g (r_tag r)) eqn:E.
  - apply str_eqb_eq in E. subst g. rewrite get_add_same. apply put_nodup. apply H.
  - apply str_eqb_neq in E. rewrite get_add_other by exact E. apply H.
Qed.

Lemma fold_inv rs : forall t, Inv t -> Inv (fold_left add_rule rs t).
Proof. induction rs as [|r rs IH]; cbn [fold_left]; intros t H; [exact H|]. apply IH. apply add_rule_inv. exact H. Qed.

Theorem L_names_unique_under_a_tag : forall rs g, NoDup (map r_name (get (build rs) g)).
Proof. intros rs. apply fold_inv. intros g. cbn. constructor. Qed.

(* the definition in force: the last one read *)
Lemma fold_keeps r post : forall t, In r (get t (r_tag r)) ->
  Forall (fun r' => r_tag r' <> r_tag r \/ r_name r' <> r_name r) post ->
  In r (get (fold_left add_rule post t) (r_tag r)).
Proof.
  induction post as [|r' post IH]; cbn [fold_left]; intros t Hin Hall; [exact Hin|].
  inversion Hall as [|? ? H1 H2]; subst. apply IH; [|exact H2].
  destruct (str_eqb (r_tag r) (r_tag r')) eqn:E.
  - apply str_eqb_eq in E. destruct H1 as [H1|H1]; [congruence|].
    rewrite E, get_add_same. apply put_keeps; [rewrite <- E; exact Hin|exact H1].
  - apply str_eqb_neq in E. rewrite get_add_other by exact E. exact Hin.
Qed.

Lemma fold_app {A B} (f : A -> B -> A) l1 l2 a : fold_left f (l1 ++ l2) a = fold_left f l2 (fold_left f l1 a).
Proof. apply fold_left_app. Qed.

Theorem L_last_definition_is_in_force : forall pre r post,
  Forall (fun r' => r_tag r' <> r_tag r \/ r_name r' <> r_name r) post ->
  In r (get (build (pre ++ r :: post)) (r_tag r)).
Proof.
  intros pre r post H. unfold build. rewrite fold_left_app. cbn [fold_left]. apply fold_keeps; [|exact H].
  rewrite get_add_same. apply put_in.
Qed.

(* ... and an earlier definition of the same name under the same tag is gone *)
Theorem L_earlier_definition_is_replaced : forall pre r post r0,
  Forall (fun r' => r_tag r' <> r_tag r \/ r_name r' <> r_name r) post ->
  In r0 (get (build (pre ++ r :: post)) (r_tag r)) -> r_name r0 = r_name r -> r0 = r.
Proof.
  intros pre r post r0 H Hin Hn.
  pose proof (L_last_definition_is_in_force pre r post H) as Hr.
  pose proof (L_names_unique_under_a_tag (pre ++ r :: post) (r_tag r)) as Hd.
  remember (get (build (pre ++ r :: post)) (r_tag r)) as l eqn:El. clear El H.
  induction l as [|x l IH]; [destruct Hin|]. cbn [map] in Hd. inversion Hd as [|? ? Hx Hd']; subst.
  destruct Hin as [Hin|Hin], Hr as [Hr|Hr].
  - congruence.
  - subst x. exfalso. apply Hx. rewrite Hn. apply in_map. exact Hr.
  - subst x. exfalso. apply Hx. rewrite <- Hn. apply in_map. exact Hin.
  - apply IH; assumption.
Qed.

Theorem L_last_definition : forall pre r post,
  Forall (fun r' => r_tag r' <> r_tag r \/ r_name r' <> r_name r) post ->
  In r (get (build (pre ++ r :: post)) (r_tag r)) /\
  (forall r0, In r0 (get (build (pre ++ r :: post)) (r_tag r)) -> r_name r0 = r_name r -> r0 = r).
Proof. intros pre r post H. split; [apply L_last_definition_is_in_force; exact H|intros r0; apply L_earlier_definition_is_replaced; exact H]. Qed.

(* ---- find_match ---- *)
Theorem L_tried_is_a_prefix : forall cs os, tried cs os = firstn (List.length (tried cs os)) cs.
Proof.
  induction cs as [|c cs IH]; intros os; [reflexivity|]. cbn [tried]. destruct os as [|[|] os]; cbn [List.length firstn].
  - rewrite <- IH. reflexivity.
  - reflexivity.
  - rewrite <- IH. reflexivity.
Qed.

Theorem L_first_match_wins : forall cs os c, first_hit cs os = Some c ->
  exists pre post, cs = pre ++ c :: post /\ tried cs os = pre ++ [c] /\
                   firstn (List.length pre) os = repeat false (List.length pre) /\ nth (List.length pre) os false = true.
Proof.
  induction cs as [|x cs IH]; intros os c H; [discriminate|]. cbn [first_hit] in H. destruct os as [|[|] os]; [discriminate| |].
  - inversion H; subst. exists [], cs. cbn. auto.
  - destruct (IH os c H) as [pre [post [E1 [E2 [E3 E4]]]]]. exists (x :: pre), post. cbn [app List.length firstn repeat nth tried].
    rewrite E1 at 1. rewrite E2, E3. auto.
Qed.

Theorem L_no_match_tries_every_rule : forall cs os, first_hit cs os = None ->
  (forall n, (n < List.length cs)%nat -> nth n os false = false) -> tried cs os = cs.
Proof.
  induction cs as [|x cs IH]; intros os H Hall; [reflexivity|]. cbn [first_hit tried] in *. destruct os as [|[|] os].
  - f_equal. apply IH; [destruct cs; reflexivity|]. intros n _. destruct n; reflexivity.
  - discriminate.
  - f_equal. apply IH; [exact H|]. intros n Hn. apply (Hall (Datatypes.S n)). cbn [List.length]. lia.
Qed.

(* a rule whose match holds for every element (match: ".") filed under "*" makes the search total *)
Theorem L_catch_all_makes_matching_total : forall cs os n, (n < List.length cs)%nat -> nth n os false = true ->
  first_hit cs os <> None.
Proof.
  induction cs as [|x cs IH]; intros os n Hn Ho; [cbn in Hn; lia|]. cbn [first_hit]. destruct os as [|[|] os].
  - destruct n; discriminate.
  - discriminate.
  - destruct n as [|n]; [discriminate|]. apply (IH os n); [cbn [List.length] in Hn; lia|exact Ho].
Qed.
