(* the documented key table (Model/KeyMap.v) is a function, and its digit row is the place-marker row *)
From MC Require Import Lib.Base Model.KeyMap.
From Coq Require Import String.
Local Open Scope string_scope.
Local Open Scope N_scope.

Definition cell_key (e : N * bool * bool * str) : N := let '(k, c, s, _) := e in 4 * k + (if c then 2 else 0) + (if s then 1 else 0).

Lemma L_no_cell_documented_twice : NoDup (map cell_key documented).
Proof. apply nodupN_NoDup. vm_compute. reflexivity. Qed.

Definition digit_ok (d : N) : bool :=
  match decode documented (48 + d) false false, decode documented (48 + d) true false,
        decode documented (48 + d) false true, decode documented (48 + d) true true with
  | Some a, Some b, Some c, Some e =>
      str_eqb a (S "MoveTo" ++ [48 + d])%list && str_eqb b (S "SetPlacemarker" ++ [48 + d])%list &&
      str_eqb c (S "Read" ++ [48 + d])%list && str_eqb e (S "Describe" ++ [48 + d])%list
  | _, _, _, _ => false
  end.
Lemma digits_ok : forallb digit_ok [0; 1; 2; 3; 4; 5; 6; 7; 8; 9] = true.
Proof. vm_compute. reflexivity. Qed.

(* a digit jumps to the marker that Ctrl + the same digit sets; Shift and Ctrl+Shift only read and describe it *)
Theorem L_digit_row : forall d, d < 10 ->
  decode documented (48 + d) false false = Some (S "MoveTo" ++ [48 + d])%list /\
  decode documented (48 + d) true false = Some (S "SetPlacemarker" ++ [48 + d])%list /\
  decode documented (48 + d) false true = Some (S "Read" ++ [48 + d])%list /\
  decode documented (48 + d) true true = Some (S "Describe" ++ [48 + d])%list.
Proof.
  intros d Hd.
  assert (Hin : In d [0; 1; 2; 3; 4; 5; 6; 7; 8; 9]).
  { assert (d = 0 \/ d = 1 \/ d = 2 \/ d = 3 \/ d = 4 \/ d = 5 \/ d = 6 \/ d = 7 \/ d = 8 \/ d = 9) as H by lia.
    cbn [In]. intuition (subst; auto 12). }
  pose proof (forallb_In _ _ _ digits_ok Hin) as H. unfold digit_ok in H.
  destruct (decode documented (48 + d) false false) as [a|]; [|discriminate].
  destruct (decode documented (48 + d) true false) as [b|]; [|discriminate].
  destruct (decode documented (48 + d) false true) as [c|]; [|discriminate].
  destruct (decode documented (48 + d) true true) as [e|]; [|discriminate].
  apply andb_true_iff in H. destruct H as [H H4]. apply andb_true_iff in H. destruct H as [H H3]. apply andb_true_iff in H. destruct H as [H1 H2].
  apply str_eqb_eq in H1. apply str_eqb_eq in H2. apply str_eqb_eq in H3. apply str_eqb_eq in H4. subst. auto.
Qed.
