(* C15 generated obligation: Gen/UnicodeEntries.v holds, for every language's unicode.yaml / unicode-full.yaml, each
   entry's first code point and its replacement as a rule AST (dumped by the harness with the library's YAML parser).
   [speaks_items] (Model/RuleAst.v) is decided here, inside Coq, and its meaning is a theorem (Proofs/RuleAstP.v): a
   replacement that passes speaks at least one item whatever its conditions evaluate to. *)
From MC Require Import Lib.Base Model.RuleAst Proofs.RuleAstP Gen.UnicodeEntries.
Local Open Scope N_scope.
(* characters that may be silent: spaces, invisible operators and format characters, private-use markers, the comma *)
Definition may_be_silent (c : N) : bool :=
  in_ranges c [(0x20, 0x20); (0x2C, 0x2C); (0xA0, 0xA0); (0x2000, 0x200F); (0x2028, 0x202F); (0x205F, 0x2064); (0xE000, 0xF8FF)].
Definition entry_ok (e : N * items) : bool := speaks_items (snd e) || may_be_silent (fst e).
Lemma L_no_character_is_silenced : forallb (fun f => forallb entry_ok (snd f)) unicode_entries = true.
Proof. vm_compute. reflexivity. Qed.

(* ... hence: every entry of every table for a character that is not exempt speaks under every outcome of its
   conditions *)
Theorem L_every_character_speaks : forall file entries c rs, In (file, entries) unicode_entries -> In (c, rs) entries ->
  may_be_silent c = false -> forall s, (0 < spoken (fst (tr_items rs s)))%nat.
Proof.
  intros file entries c rs Hf He Hc s.
  pose proof (forallb_In _ _ _ L_no_character_is_silenced Hf) as H1. cbv beta in H1. cbn [snd] in H1.
  pose proof (forallb_In _ _ _ H1 He) as H2. unfold entry_ok in H2. cbn [fst snd] in H2. rewrite Hc, Bool.orb_false_r in H2.
  apply L_speaks_list_sound. exact H2.
Qed.
