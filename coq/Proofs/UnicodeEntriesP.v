(* C15 generated obligation: Gen/UnicodeEntries.v lists, for every language's unicode.yaml / unicode-full.yaml, each
   entry's first code point and whether its replacement speaks under every condition (computed by the harness with the
   library's YAML parser: some item is a text / xpath / spell item, or a test all of whose branches exist and speak). *)
From MC Require Import Lib.Base Gen.UnicodeEntries.
Local Open Scope N_scope.
(* characters that may be silent: spaces, invisible operators and format characters, private-use markers, the comma *)
Definition may_be_silent (c : N) : bool :=
  in_ranges c [(0x20, 0x20); (0x2C, 0x2C); (0xA0, 0xA0); (0x2000, 0x200F); (0x2028, 0x202F); (0x205F, 0x2064); (0xE000, 0xF8FF)].
Definition entry_ok (e : N * bool) : bool := snd e || may_be_silent (fst e).
Lemma L_no_character_is_silenced : forallb (fun f => forallb entry_ok (snd f)) unicode_entries = true.
Proof. vm_compute. reflexivity. Qed.
