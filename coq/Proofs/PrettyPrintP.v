(* C02 proofs: what mml_to_string writes for a text or an attribute value decodes back to exactly that text, and
   contains no character that could end the text or the attribute value early. *)
From MC Require Import Lib.Base Gen.EscapeTab Model.PrettyPrint.
Local Open Scope N_scope.

Lemma table_ok : table_okb = true.
Proof. vm_compute. reflexivity. Qed.

Lemma find_semi_app : forall name rest, ~ In 59 name -> find_semi (name ++ 59 :: rest) = Some (name, rest).
Proof.
  induction name as [|x n IH]; intros rest H; cbn [app find_semi].
  - reflexivity.
  - destruct (N.eqb_spec x 59) as [E|E]; [exfalso; apply H; left; exact E|]. rewrite IH; [reflexivity|].
    intro Hin. apply H. right. exact Hin.
Qed.

Lemma find_semi_split : forall s a b, find_semi s = Some (a, b) -> s = a ++ 59 :: b /\ ~ In 59 a.
Proof.
  induction s as [|x r IH]; intros a b H; cbn [find_semi] in H; [discriminate|].
  destruct (N.eqb_spec x 59) as [E|E].
  - inversion H; subst. split; [reflexivity | intros []].
  - destruct (find_semi r) as [[a' b']|] eqn:F; [|discriminate]. inversion H; subst. destruct (IH _ _ eq_refl) as [E1 E2].
    split; [cbn [app]; f_equal; exact E1|]. intros [Hin|Hin]; [congruence | exact (E2 Hin)].
Qed.

Lemma unescape_fuel : forall f s t, unescape f s = Some t -> forall g, (f <= g)%nat -> unescape g s = Some t.
Proof.
  induction f as [|f IH]; intros s t H g Hg; [discriminate|]. destruct g as [|g]; [lia|]. cbn [unescape] in *.
  destruct s as [|c r]; [exact H|]. destruct (c =? 38).
  - destruct (find_semi r) as [[name rest]|]; [|discriminate]. destruct (ref_entity name); [|discriminate].
    destruct (unescape f rest) as [t'|] eqn:E; [|discriminate]. rewrite (IH _ _ E g) by lia. exact H.
  - destruct (c =? 60); [discriminate|]. destruct (unescape f r) as [t'|] eqn:E; [|discriminate].
    rewrite (IH _ _ E g) by lia. exact H.
Qed.

(* an entry of the table is "&name;" and the reference decoder reads it back as the character it stands for *)
Lemma entry_decodes : forall c e, In (c, e) escape_table ->
  exists name, e = 38 :: name ++ [59] /\ ~ In 59 name /\ ref_entity name = Some c.
Proof.
  intros c e Hin. pose proof table_ok as T. unfold table_okb in T. apply andb_true_iff in T. destruct T as [T _].
  pose proof (forallb_In _ _ _ T Hin) as H. unfold entry_okb in H. cbn [fst snd] in H.
  destruct e as [|a body]; [discriminate|]. apply andb_true_iff in H. destruct H as [Ha H]. apply N.eqb_eq in Ha. subst a.
  destruct (find_semi body) as [[name rest]|] eqn:F; [|discriminate]. apply andb_true_iff in H. destruct H as [Hr H].
  destruct rest; [|discriminate].
  destruct (ref_entity name) as [v|] eqn:R; [|discriminate]. apply N.eqb_eq in H. subst v.
  destruct (find_semi_split _ _ _ F) as [E1 E2]. exists name. subst body. auto.
Qed.

Lemma special_chars_covered : forall c, In c [38; 60; 62; 39; 34] -> exists e, lookupN c escape_table = Some e.
Proof.
  intros c Hin. pose proof table_ok as T. unfold table_okb in T. apply andb_true_iff in T. destruct T as [_ T].
  pose proof (forallb_In _ _ _ T Hin) as H. cbv beta in H. destruct (lookupN c escape_table) as [e|]; [exists e; reflexivity | discriminate].
Qed.

Lemma unescape_entity : forall f name rest v t, ~ In 59 name -> ref_entity name = Some v -> unescape f rest = Some t ->
  unescape (Datatypes.S f) (38 :: name ++ 59 :: rest) = Some (v :: t).
Proof.
  intros f name rest v t Hn Hr Hu. cbn [unescape]. change (38 =? 38) with true. cbv iota.
  rewrite (find_semi_app _ _ Hn), Hr, Hu. reflexivity.
Qed.
Lemma unescape_plain : forall f c r t, (c =? 38) = false -> (c =? 60) = false -> unescape f r = Some t ->
  unescape (Datatypes.S f) (c :: r) = Some (c :: t).
Proof. intros f c r t H1 H2 Hu. cbn [unescape]. rewrite H1, H2, Hu. reflexivity. Qed.

Theorem L_unescape_escape : forall s, unescape (Datatypes.S (List.length (escape s))) (escape s) = Some s.
Proof.
  induction s as [|c s IH]; [reflexivity|]. unfold escape in *. cbn [flat_map]. unfold escape_char at 1 3.
  destruct (lookupN c escape_table) as [e|] eqn:L.
  - destruct (entry_decodes c e (lookupN_In _ _ _ L)) as [name [-> [Hn Hr]]].
    assert (E : (38 :: name ++ [59]) ++ flat_map escape_char s = 38 :: name ++ 59 :: flat_map escape_char s).
    { cbn [app]. rewrite <- app_assoc. reflexivity. }
    rewrite E. apply (unescape_fuel (Datatypes.S (Datatypes.S (List.length (flat_map escape_char s))))).
    + apply unescape_entity; assumption.
    + cbn [List.length]. rewrite app_length. cbn [List.length]. lia.
  - cbn [app List.length].
    apply unescape_plain; [| | exact IH].
    + destruct (N.eqb_spec c 38) as [E|E]; [exfalso; subst c; destruct (special_chars_covered 38) as [e He]; [cbn [In]; repeat (first [left; reflexivity | right]) | congruence] | reflexivity].
    + destruct (N.eqb_spec c 60) as [E2|E2]; [exfalso; subst c; destruct (special_chars_covered 60) as [e He]; [cbn [In]; repeat (first [left; reflexivity | right]) | congruence] | reflexivity].
Qed.

(* nothing that could end a text node or a quoted attribute value early survives escaping *)
Definition delimiter (c : N) : bool := (c =? 60) || (c =? 39) || (c =? 34).

Lemma entry_no_delimiter : forallb (fun e => forallb (fun c => negb (delimiter c)) (snd e)) escape_table = true.
Proof. vm_compute. reflexivity. Qed.

Lemma special_not_default : forall c, In c [38; 60; 62; 39; 34] -> lookupN c escape_table = None -> False.
Proof. intros c Hin Hn. destruct (special_chars_covered c Hin) as [e He]. congruence. Qed.

Theorem L_escape_no_delimiter : forall s c, In c (escape s) -> delimiter c = false.
Proof.
  induction s as [|x s IH]; intros c H; [destruct H|]. unfold escape in H. cbn [flat_map] in H. apply in_app_or in H.
  destruct H as [H|H]; [|apply IH; exact H]. unfold escape_char in H. destruct (lookupN x escape_table) as [e|] eqn:L.
  - pose proof (forallb_In _ _ _ entry_no_delimiter (lookupN_In _ _ _ L)) as E. cbn [snd] in E.
    apply negb_true_iff. exact (forallb_In _ _ _ E H).
  - destruct H as [<-|[]]. unfold delimiter.
    destruct (N.eqb_spec x 60) as [E|E]; [exfalso; subst; apply (special_not_default 60); [cbn [In]; repeat (first [left; reflexivity | right]) | exact L]|].
    destruct (N.eqb_spec x 39) as [E1|E1]; [exfalso; subst; apply (special_not_default 39); [cbn [In]; repeat (first [left; reflexivity | right]) | exact L]|].
    destruct (N.eqb_spec x 34) as [E3|E3]; [exfalso; subst; apply (special_not_default 34); [cbn [In]; repeat (first [left; reflexivity | right]) | exact L]|].
    reflexivity.
Qed.
