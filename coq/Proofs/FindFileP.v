(* C15 proofs over Model/FindFile.v: for EVERY language / region / code name and every file system. *)
From MC Require Import Lib.Base Model.FindFile.
Local Open Scope N_scope.

Section Proofs.
  Variable is_file is_dir has_style has_yaml : path -> bool.
  Notation scan := (scan is_file has_style).
  Notation ff1 := (ff1 is_file has_style).
  Notation find_file := (find_file is_file is_dir has_style).
  Notation lang_dir := (lang_dir is_dir).
  Notation get_language_dir := (get_language_dir is_dir).

  (* what is located exists *)
  Lemma scan_sound : forall ds file style alt r, scan ds file style alt = Some r ->
    (forall d, alt = Some d -> has_style d = true) ->
    match r with Found p => is_file p = true | AnyStyleIn d => has_style d = true end.
  Proof.
    induction ds as [|a ds IH]; intros file style alt r H Ha; cbn [FindFile.scan] in H.
    - destruct alt as [d|]; cbn in H; [|discriminate]. inversion H; subst. apply Ha. reflexivity.
    - destruct (is_file (a ++ [file]) && negb (str_eqb file f_definitions && negb (nonempty a))) eqn:E.
      + inversion H; subst. apply andb_true_iff in E. apply E.
      + apply (IH _ _ _ _ H). intros d Hd. destruct alt as [d0|]; [apply Ha; exact Hd|].
        destruct (style && has_style a) eqn:S; [|discriminate]. inversion Hd; subst. apply andb_true_iff in S. apply S.
  Qed.
  Theorem L_located_exists : forall base parts default file r, find_file base parts default file = Some r ->
    match r with Found p => is_file p = true | AnyStyleIn d => has_style d = true end.
  Proof.
    intros base parts default file r H. unfold FindFile.find_file, FindFile.ff1 in H.
    destruct (get_language_dir base parts default) as [d|].
    - destruct (scan (ancestors d) file (ends_with file rules_suffix) None) as [r0|] eqn:E.
      + inversion H; subst. apply (scan_sound _ _ _ _ _ E). intros d0 Hd. discriminate.
      + destruct default as [dp|]; [|discriminate]. destruct (get_language_dir base dp None) as [d'|]; [|discriminate].
        apply (scan_sound _ _ _ _ _ H). intros d0 Hd. discriminate.
    - destruct default as [dp|]; [|discriminate]. destruct (get_language_dir base dp None) as [d'|]; [|discriminate].
      apply (scan_sound _ _ _ _ _ H). intros d0 Hd. discriminate.
  Qed.

  (* a scan finds the file of the first directory that has it *)
  Lemma scan_hit : forall pre a post file style alt,
    (forall b, In b pre -> is_file (b ++ [file]) = false) -> is_file (a ++ [file]) = true -> nonempty a = true ->
    scan (pre ++ a :: post) file style alt = Some (Found (a ++ [file])).
  Proof.
    induction pre as [|b pre IH]; intros a post file style alt Hpre Ha Hne; cbn [app FindFile.scan].
    - rewrite Ha, Hne. cbn [negb]. rewrite Bool.andb_false_r. reflexivity.
    - rewrite (Hpre b (or_introl eq_refl)). cbn [andb]. apply IH; auto. intros c Hc. apply Hpre. right. exact Hc.
  Qed.

  Lemma ancestors_cons_last : forall p x, ancestors (p ++ [x]) = (p ++ [x]) :: ancestors p.
  Proof.
    assert (H : forall p x, inits (p ++ [x]) = inits p ++ [p ++ [x]]).
    { induction p as [|y p IH]; intro x; [reflexivity|]. cbn [app inits]. rewrite IH, map_app. reflexivity. }
    intros p x. unfold ancestors. rewrite H, rev_app_distr. reflexivity.
  Qed.

  Lemma nonempty_app : forall (a b : path), nonempty b = true -> nonempty (a ++ b) = true.
  Proof. intros [|x a] b H; [exact H | reflexivity]. Qed.

  (* the regional directory first ... *)
  Theorem L_region_first : forall base l r default file,
    is_dir (base ++ [l; r]) = true -> is_file (base ++ [l; r] ++ [file]) = true ->
    find_file base [l; r] default file = Some (Found (base ++ [l; r] ++ [file])).
  Proof.
    intros base l r default file Hd Hf. unfold FindFile.find_file, FindFile.get_language_dir, FindFile.lang_dir.
    change (ancestors [l; r]) with [[l; r]; [l]; []]. cbn [filter nonempty map find]. rewrite Hd. unfold FindFile.ff1.
    replace (base ++ [l; r]) with ((base ++ [l]) ++ [r]) by (rewrite <- app_assoc; reflexivity).
    rewrite ancestors_cons_last.
    match goal with |- context [FindFile.scan _ _ (?a :: ?post) _ ?st None] =>
      pose proof (scan_hit [] a post file st None) as E0 end.
    cbn [app] in E0. rewrite E0.
    - rewrite <- !app_assoc. reflexivity.
    - intros b [].
    - rewrite <- !app_assoc in *. exact Hf.
    - apply nonempty_app. reflexivity.
  Qed.

  (* ... then the language directory *)
  Theorem L_language_next : forall base l r default file,
    is_dir (base ++ [l; r]) = true -> is_file (base ++ [l; r] ++ [file]) = false ->
    is_file (base ++ [l] ++ [file]) = true ->
    find_file base [l; r] default file = Some (Found (base ++ [l] ++ [file])).
  Proof.
    intros base l r default file Hd Hf0 Hf. unfold FindFile.find_file, FindFile.get_language_dir, FindFile.lang_dir.
    change (ancestors [l; r]) with [[l; r]; [l]; []]. cbn [filter nonempty map find]. rewrite Hd. unfold FindFile.ff1.
    replace (base ++ [l; r]) with ((base ++ [l]) ++ [r]) by (rewrite <- app_assoc; reflexivity).
    rewrite ancestors_cons_last. rewrite ancestors_cons_last.
    match goal with |- context [FindFile.scan _ _ (?b :: ?a :: ?post) _ ?st None] =>
      pose proof (scan_hit [b] a post file st None) as E0 end.
    cbn [app] in E0. rewrite E0.
    - rewrite <- !app_assoc. reflexivity.
    - intros b [Hb|[]]. subst b. rewrite <- !app_assoc in *. exact Hf0.
    - rewrite <- !app_assoc in *. exact Hf.
    - apply nonempty_app. reflexivity.
  Qed.
  Theorem L_region_missing_uses_language : forall base l r default file,
    is_dir (base ++ [l; r]) = false -> is_dir (base ++ [l]) = true -> is_file (base ++ [l] ++ [file]) = true ->
    find_file base [l; r] default file = Some (Found (base ++ [l] ++ [file])).
  Proof.
    intros base l r default file Hd0 Hd Hf. unfold FindFile.find_file, FindFile.get_language_dir, FindFile.lang_dir.
    change (ancestors [l; r]) with [[l; r]; [l]; []]. cbn [filter nonempty map find]. rewrite Hd0, Hd. unfold FindFile.ff1.
    rewrite ancestors_cons_last.
    match goal with |- context [FindFile.scan _ _ (?a :: ?post) _ ?st None] =>
      pose proof (scan_hit [] a post file st None) as E0 end.
    cbn [app] in E0. rewrite E0.
    - rewrite <- !app_assoc. reflexivity.
    - intros b [].
    - rewrite <- !app_assoc in *. exact Hf.
    - apply nonempty_app. reflexivity.
  Qed.

  (* an unknown language is the default language *)
  Theorem L_unknown_is_default : forall base parts dp file, lang_dir base parts = None ->
    find_file base parts (Some dp) file = find_file base dp (Some dp) file.
  Proof.
    intros base parts dp file Hn. unfold FindFile.find_file, FindFile.get_language_dir. rewrite Hn.
    destruct (lang_dir base dp) as [d|]; reflexivity.
  Qed.

  (* with a complete default language nothing ever fails to be located, whatever name is asked for *)
  Theorem L_default_complete_total : forall base d file parts,
    is_dir (base ++ [d]) = true -> is_file (base ++ [d] ++ [file]) = true ->
    find_file base parts (Some [d]) file <> None.
  Proof.
    intros base d file parts Hd Hf.
    assert (E : ff1 (get_language_dir base [d] None) file = Some (Found (base ++ [d] ++ [file]))).
    { unfold FindFile.get_language_dir, FindFile.lang_dir. change (ancestors [d]) with [[d]; []].
      cbn [filter nonempty map find]. rewrite Hd. unfold FindFile.ff1. rewrite ancestors_cons_last.
      match goal with |- context [FindFile.scan _ _ (?a :: ?post) _ ?st None] =>
        pose proof (scan_hit [] a post file st None) as E0 end.
      cbn [app] in E0. rewrite E0.
      - rewrite <- !app_assoc. reflexivity.
      - intros b [].
      - rewrite <- !app_assoc in *. exact Hf.
      - apply nonempty_app. reflexivity. }
    unfold FindFile.find_file. destruct (ff1 (get_language_dir base parts (Some [d])) file); [discriminate|].
    rewrite E. discriminate.
  Qed.
End Proofs.

Section Totality.
  Variable is_file is_dir has_style has_yaml : path -> bool.
  Notation scan := (scan is_file has_style).

  Definition servesb (file : str) (a : path) : bool :=
    is_file (a ++ [file]) && negb (str_eqb file f_definitions && negb (nonempty a)).

  Lemma scan_some : forall ds file style alt, existsb (servesb file) ds = true -> scan ds file style alt <> None.
  Proof.
    induction ds as [|a ds IH]; intros file style alt H; [discriminate|]. cbn [FindFile.scan existsb] in *.
    unfold servesb in H at 1. destruct (is_file (a ++ [file]) && negb (str_eqb file f_definitions && negb (nonempty a))).
    - discriminate.
    - cbn [orb] in H. apply IH. exact H.
  Qed.

  (* if the default language directory (or a directory above it) serves the file, every name is served *)
  Theorem L_default_serves_total : forall base d file parts,
    is_dir (base ++ [d]) = true -> existsb (servesb file) (ancestors (base ++ [d])) = true ->
    find_file is_file is_dir has_style base parts (Some [d]) file <> None.
  Proof.
    intros base d file parts Hd Hs. unfold find_file.
    destruct (ff1 is_file has_style (get_language_dir is_dir base parts (Some [d])) file); [discriminate|].
    unfold get_language_dir, lang_dir. change (ancestors [d]) with [[d]; []]. cbn [filter nonempty map find]. rewrite Hd.
    unfold ff1. apply scan_some. exact Hs.
  Qed.

  (* a name for which no directory exists is unzipped and located as the default language *)
  Theorem L_unknown_unzips_as_default : forall base parts d, lang_dir is_dir base parts = None ->
    is_dir (base ++ [d]) = true -> has_yaml (base ++ [d]) = true ->
    unzip_ok is_dir has_yaml base parts (Some [d]) = true.
  Proof.
    intros base parts d Hn Hd Hy. unfold unzip_ok, get_language_dir. rewrite Hn.
    unfold lang_dir. change (ancestors [d]) with [[d]; []]. cbn [filter nonempty map find]. rewrite Hd, Hy. reflexivity.
  Qed.

  Lemma all_some_total : forall l, (forall x, In x l -> x <> None) -> all_some l <> None.
  Proof.
    induction l as [|[x|] l IH]; intros H; cbn [all_some]; [discriminate| |].
    - assert (A : all_some l <> None) by (apply IH; intros y Hy; apply H; right; exact Hy).
      destruct (all_some l); [discriminate | exact A].
    - exfalso. apply (H None); [left; reflexivity | reflexivity].
  Qed.
End Totality.
