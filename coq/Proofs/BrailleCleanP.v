(* C06 proofs: a clean-up chain whose steps only delete / insert characters outside a class leaves the sub-sequence of
   the characters of that class unchanged -- for every string and whatever matches the regex engine picks. *)
From MC Require Import Lib.Base Model.BrailleClean.
Local Open Scope N_scope.

Lemma proj_app : forall keep a b, proj keep (a ++ b) = proj keep a ++ proj keep b.
Proof. intros. unfold proj. apply filter_app. Qed.

Lemma proj_none : forall keep s, forallb (fun c => negb (keep c)) s = true -> proj keep s = [].
Proof.
  intros keep s. induction s as [|c s IH]; intro H; [reflexivity|]. cbn [forallb] in H. apply andb_true_iff in H.
  destruct H as [H1 H2]. unfold proj. cbn [filter]. apply negb_true_iff in H1. rewrite H1. apply IH. exact H2.
Qed.

Lemma range_chars_In : forall n lo c, lo <= c -> c < lo + N.of_nat n -> In c (range_chars lo n).
Proof.
  induction n as [|n IH]; intros lo c H1 H2; [lia|]. cbn [range_chars].
  destruct (N.eq_dec lo c) as [E|E]; [left; exact E|]. right. apply IH; lia.
Qed.

Lemma chars_of_In : forall rs c, in_ranges c rs = true -> In c (chars_of rs).
Proof.
  intros rs c H. unfold in_ranges in H. apply existsb_exists in H. destruct H as [[lo hi] [Hin Hr]]. cbn [fst snd] in Hr.
  apply andb_true_iff in Hr. destruct Hr as [H1 H2]. apply N.leb_le in H1, H2.
  unfold chars_of. apply in_flat_map. exists (lo, hi). split; [exact Hin|]. cbn [fst snd].
  apply range_chars_In; [exact H1|]. rewrite N2Nat.id. lia.
Qed.

Lemma dropped_none : forall keep al t, action_okb keep (Drop al) = true -> forallb (in_alpha al) t = true ->
  proj keep t = [].
Proof.
  intros keep al t Ha Ht. apply proj_none. destruct al as [rs|]; [|discriminate]. cbn [action_okb] in Ha.
  apply forallb_forall. intros c Hc. pose proof (forallb_In _ _ _ Ht Hc) as Hr. cbn [in_alpha] in Hr.
  exact (forallb_In _ _ _ Ha (chars_of_In _ _ Hr)).
Qed.

Lemma match_keeps : forall keep acts m, conf acts m -> forallb (action_okb keep) acts = true ->
  proj keep (match_out acts m) = proj keep (concat m).
Proof.
  intros keep acts m C. induction C as [|s a m C IH|a m t C IH|al a m t Ht C IH]; intro H; cbn [forallb] in H;
    try (apply andb_true_iff in H; destruct H as [H1 H2]).
  - reflexivity.
  - cbn [match_out]. rewrite proj_app. cbn [action_okb] in H1. rewrite (proj_none _ _ H1). exact (IH H2).
  - cbn [match_out concat]. rewrite !proj_app. rewrite (IH H2). reflexivity.
  - cbn [match_out concat]. rewrite proj_app. rewrite (dropped_none _ _ _ H1 Ht). exact (IH H2).
Qed.

Lemma step_keeps : forall keep st s s', step_okb keep st = true -> step_rel st s s' -> proj keep s' = proj keep s.
Proof.
  intros keep st s s' Hok Hr. destruct st as [alts|]; [|destruct Hr]. cbn [step_okb] in Hok.
  destruct Hr as [segs [Hs [-> ->]]]. induction Hs as [|x segs Hx Hs IH]; [reflexivity|].
  cbn [map concat]. rewrite !proj_app. rewrite IH. f_equal.
  destruct x as [u|a m]; [reflexivity|]. cbn [seg_ok] in Hx. destruct Hx as [Hin Hc]. cbn [seg_in seg_out].
  apply match_keeps; [exact Hc|]. exact (forallb_In _ _ _ Hok Hin).
Qed.

Theorem chain_keeps : forall keep steps s s', forallb (step_okb keep) steps = true -> chain_rel steps s s' ->
  proj keep s' = proj keep s.
Proof.
  intros keep steps s s' Hok Hc. induction Hc as [s|st r s s1 s2 H1 H2 IH]; [reflexivity|].
  cbn [forallb] in Hok. apply andb_true_iff in Hok. destruct Hok as [A B].
  rewrite (IH B). exact (step_keeps _ _ _ _ A H1).
Qed.

(* a literal made of kept characters that stands in the input between two characters... survives as a sub-sequence:
   if it occurs in the projection of the input, it occurs in the projection of the output *)
Corollary chain_keeps_count : forall keep steps s s' c, forallb (step_okb keep) steps = true -> chain_rel steps s s' ->
  count_occ N.eq_dec (proj keep s') c = count_occ N.eq_dec (proj keep s) c.
Proof. intros. erewrite chain_keeps; eauto. Qed.
