(* C20: proofs about the highlight arithmetic. *)
From MC Require Import Lib.Base Gen.HighlightTabs Model.Highlight.
Local Open Scope N_scope.

(* ---------- finite facts about single cells ---------- *)
Definition cells6 : list N := map (fun k => 0x2800 + N.of_nat k) (seq 0 64).
Lemma in_cells6 : forall c, 0x2800 <= c -> c <= 0x283F -> In c cells6.
Proof.
  intros c H1 H2. unfold cells6. apply in_map_iff. exists (N.to_nat (c - 0x2800)). split.
  - rewrite N2Nat.id. lia.
  - apply in_seq. lia.
Qed.

Definition cell_ok (c : N) : bool :=
  (unhighlight (highlight c) =? c) && is_highlighted (highlight c) && negb (is_highlighted c)
  && (unhighlight c =? c) && (0x28C0 <=? highlight c) && (highlight c <=? 0x28FF).
Lemma cells6_ok : forallb cell_ok cells6 = true.
Proof. vm_compute. reflexivity. Qed.

Lemma L_highlight_roundtrip : forall c, 0x2800 <= c -> c <= 0x283F ->
  unhighlight (highlight c) = c /\ is_highlighted (highlight c) = true /\ is_highlighted c = false /\ unhighlight c = c.
Proof.
  intros c H1 H2. pose proof (forallb_In cell_ok cells6 c cells6_ok (in_cells6 c H1 H2)) as H. unfold cell_ok in H.
  repeat (apply andb_true_iff in H; destruct H as [H ?]).
  apply N.eqb_eq in H. split; [exact H|]. split; [assumption|]. split; [apply negb_true_iff; assumption | apply N.eqb_eq; assumption].
Qed.

(* ---------- highlighting off / no node: the string is returned untouched ---------- *)
Lemma find_first_none : forall f s i, find_first f s i = None <-> forallb (fun c => negb (f c)) s = true.
Proof.
  intros f s. induction s as [|c t IH]; intro i; cbn [find_first forallb]; [tauto|].
  destruct (f c); cbn [negb andb]; [split; discriminate | apply IH].
Qed.

Lemma L_no_highlight_identity : forall s n u fill, forallb (fun c => negb (is_highlighted c)) s = true ->
  highlight_braille_chars s n u fill = HOk s 0 (bytes s / 3).
Proof.
  intros s n u fill H. unfold highlight_braille_chars. apply (find_first_none is_highlighted s 0%nat) in H. rewrite H. reflexivity.
Qed.

(* ---------- the look-back never counts more cells than it has seen ---------- *)
Lemma i_start_nemeth_le : forall r f, (i_start_nemeth r f <= List.length r)%nat.
Proof.
  intros r f. unfold i_start_nemeth.
  destruct r as [|c t]; [simpl; lia|].
  destruct ((c =? c_cap) || ((c =? c_num) && memN f nemeth_numbers) || (c =? c_d456) || (c =? c_d4) || (c =? c_d46)).
  - destruct t as [|c2 t2]; [simpl; lia|].
    destruct ((c2 =? c_d56) || (c2 =? c_d456) || (c2 =? c_d46)); [simpl; lia|].
    destruct (c2 =? c_d4); [destruct t2 as [|d t3]; [simpl; lia | destruct ((d =? c_d4) || (d =? c_d46)); simpl; lia]|].
    destruct (c2 =? c_cap); [destruct t2 as [|d t3]; [simpl; lia | destruct (d =? c_cap); simpl; lia] | simpl; lia].
  - destruct ((c =? c_d56) || (c =? c_d456) || (c =? c_d46)); [simpl; lia|].
    destruct (c =? c_d4); [destruct t as [|d t3]; [simpl; lia | destruct ((d =? c_d4) || (d =? c_d46)); simpl; lia]|].
    destruct (c =? c_cap); [destruct t as [|d t3]; [simpl; lia | destruct (d =? c_cap); simpl; lia] | simpl; lia].
Qed.

Lemma check_for_typeform_len : forall t k t', check_for_typeform t = (k, t') ->
  (List.length t' <= List.length t)%nat /\ ((0 < k)%nat -> (k = 1 + (List.length t - List.length t'))%nat).
Proof.
  intros t k t'. unfold check_for_typeform. destruct t as [|c t1]; [intro H; inversion H; cbn [List.length]; split; lia|].
  destruct (memN c ueb_typeform_prefixes); [intro H; inversion H; subst; cbn [List.length]; split; lia|].
  destruct (c =? c_num).
  - destruct t1 as [|d t2]; [intro H; inversion H; subst; cbn [List.length]; split; lia|].
    destruct (memN d ueb_typeform_prefixes || (d =? c_d5)); intro H; inversion H; subst; cbn [List.length]; split; lia.
  - intro H; inversion H; subst; cbn [List.length]; split; lia.
Qed.

Lemma i_start_ueb_le : forall fuel r, (i_start_ueb fuel r <= List.length r)%nat.
Proof.
  induction fuel as [|fuel IH]; intro r; [cbn [i_start_ueb]; lia|]. cbn [i_start_ueb].
  destruct r as [|c t]; [cbn [List.length]; lia|].
  destruct (memN c ueb_prefixes); [specialize (IH t); cbn [List.length]; lia|].
  destruct (c =? c_d23); [|cbn [List.length]; lia].
  destruct (check_for_typeform t) as [k t'] eqn:E. destruct (check_for_typeform_len t k t' E) as [H1 H2].
  destruct (0 <? k)%nat eqn:Ek; [|cbn [List.length]; lia]. apply Nat.ltb_lt in Ek. specialize (H2 Ek). specialize (IH t'). cbn [List.length]. lia.
Qed.

(* ---------- the look-back start is never beyond the first highlighted cell ---------- *)
Lemma boundary_from_le : forall s target acc i0 m, target <= acc + bytes (firstn m s) ->
  (boundary_from target acc i0 s <= i0 + m)%nat.
Proof.
  induction s as [|c t IH]; intros target acc i0 m H; cbn [boundary_from]; [lia|].
  destruct (target <=? acc) eqn:E; [lia|]. apply N.leb_gt in E.
  destruct m as [|m]; [cbn in H; lia|]. cbn [firstn bytes fold_right] in H.
  specialize (IH target (acc + w c) (Datatypes.S i0) m). fold (bytes (firstn m t)) in H.
  assert (Hle : (boundary_from target (acc + w c) (Datatypes.S i0) t <= Datatypes.S i0 + m)%nat) by (apply IH; lia). lia.
Qed.

Lemma find_first_lt : forall f s i0 i, find_first f s i0 = Some i -> (i0 <= i < i0 + List.length s)%nat /\ f (nth (i - i0) s 0) = true.
Proof.
  intros f s. induction s as [|c t IH]; intros i0 i H; cbn [find_first] in H; [discriminate|].
  destruct (f c) eqn:E.
  - inversion H; subst. cbn [List.length]. split; [lia|]. rewrite Nat.sub_diag. exact E.
  - destruct (IH _ _ H) as [A Bq]. cbn [List.length]. split; [lia|].
    replace (i - i0)%nat with (Datatypes.S (i - Datatypes.S i0)) by lia. exact Bq.
Qed.

Lemma find_first_skip : forall f s i0 i k, find_first f s i0 = Some i -> forallb (fun c => negb (f c)) (firstn k s) = true ->
  (k <= List.length s)%nat -> (i0 + k <= i)%nat.
Proof.
  intros f s. induction s as [|c t IH]; intros i0 i k H Hk Hl.
  - cbn in Hl. assert (k = 0)%nat by lia. subst. cbn in H. discriminate.
  - destruct k as [|k]; [apply find_first_lt in H; lia|]. cbn [firstn forallb] in Hk. apply andb_true_iff in Hk.
    destruct Hk as [Hc Hk]. cbn [find_first] in H. apply negb_true_iff in Hc. rewrite Hc in H.
    cbn [List.length] in Hl. specialize (IH (Datatypes.S i0) i k H Hk ltac:(lia)). lia.
Qed.

Lemma d56_plain : is_highlighted c_d56 = false.
Proof. vm_compute. reflexivity. Qed.

Lemma starts_with_cells_firstn : forall p s, starts_with_cells p s = true -> firstn (List.length p) s = p /\ (List.length p <= List.length s)%nat.
Proof.
  intros p s H. unfold starts_with_cells in H. apply str_eqb_eq in H. split; [symmetry; exact H|].
  rewrite H at 1. rewrite firstn_length. lia.
Qed.

(* the function never reaches one of its slice / subtraction panics *)
Lemma L_highlight_total : forall s n u fill, highlight_braille_chars s n u fill <> HPanic.
Proof.
  intros s n u fill. unfold highlight_braille_chars.
  destruct (find_first is_highlighted s 0) as [i|] eqn:Ei; [|discriminate].
  destruct (find_last is_highlighted s) as [j|]; [|discriminate].
  set (start_b := bytes (firstn i s)).
  set (target := if lookback_bytes <? start_b then start_b - lookback_bytes else 0).
  set (k0 := boundary_from target 0 0 s).
  assert (Hk0 : (k0 <= i)%nat).
  { unfold k0. pose proof (boundary_from_le s target 0 0%nat i) as H. cbn in H. apply H. unfold target.
    destruct (lookback_bytes <? start_b) eqn:E; [|lia]. unfold start_b. lia. }
  set (k := if (bytes (firstn k0 s) =? 0) && u then
              if starts_with_cells [c_d56; c_d56; c_d56] s then 3%nat
              else if starts_with_cells [c_d56; c_d56] s then 2%nat else k0
            else k0).
  assert (Hk : (k <= i)%nat).
  { unfold k. destruct ((bytes (firstn k0 s) =? 0) && u); [|exact Hk0].
    destruct (starts_with_cells [c_d56; c_d56; c_d56] s) eqn:E3.
    - destruct (starts_with_cells_firstn _ _ E3) as [Hf Hl]. cbn [List.length] in Hf, Hl.
      pose proof (find_first_skip is_highlighted s 0%nat i 3%nat Ei) as H. cbn [Nat.add] in H. apply H; [|exact Hl].
      rewrite Hf. cbn [forallb]. rewrite d56_plain. reflexivity.
    - destruct (starts_with_cells [c_d56; c_d56] s) eqn:E2; [|exact Hk0].
      destruct (starts_with_cells_firstn _ _ E2) as [Hf Hl]. cbn [List.length] in Hf, Hl.
      pose proof (find_first_skip is_highlighted s 0%nat i 2%nat Ei) as H. cbn [Nat.add] in H. apply H; [|exact Hl].
      rewrite Hf. cbn [forallb]. rewrite d56_plain. reflexivity. }
  destruct (Nat.ltb i k) eqn:Eik; [apply Nat.ltb_lt in Eik; lia|].
  set (rprefix := rev (firstn (i - k) (skipn k s))).
  assert (Hlen : (List.length rprefix <= i - k)%nat) by (unfold rprefix; rewrite rev_length, firstn_length; lia).
  set (nn := if n then i_start_nemeth rprefix (unhighlight (nth i s 0)) else i_start_ueb (Datatypes.S (List.length rprefix)) rprefix).
  assert (Hn : (nn <= i)%nat).
  { unfold nn. destruct n; [pose proof (i_start_nemeth_le rprefix (unhighlight (nth i s 0))) | pose proof (i_start_ueb_le (Datatypes.S (List.length rprefix)) rprefix)]; lia. }
  destruct (Nat.ltb i nn) eqn:Ein; [apply Nat.ltb_lt in Ein; lia|].
  destruct ((i - nn =? j)%nat || negb fill); discriminate.
Qed.

(* ---------- routing restores the highlight preference on every path ---------- *)
Lemma exits_clean_sound : forall evs o k, exits_clean o evs = true -> run_events o evs k = false.
Proof.
  induction evs as [|e t IH]; intros o k H; cbn [exits_clean run_events] in *.
  - destruct o; [discriminate | reflexivity].
  - destruct (e =? 0); [apply IH; exact H|]. destruct (e =? 1); [apply IH; exact H|].
    apply andb_true_iff in H. destruct H as [H1 H2]. destruct k; [destruct o; [discriminate | reflexivity] | apply IH; exact H2].
Qed.
Lemma route_events_clean : exits_clean false route_events = true.
Proof. vm_compute. reflexivity. Qed.
Lemma L_route_restores_pref : forall k, run_events false route_events k = false.
Proof. intro k. apply exits_clean_sound. exact route_events_clean. Qed.
