(* C03 proofs, part 4: from the machine invariant to the tree: if the classifier places every child of every row where
   its form fits ([well_placed], an executable check that follows the row loop), every row of the result is
   well formed with respect to the operator priorities. *)
From MC Require Import Lib.Base Lib.Tree Gen.OpDict Model.ParserCore Model.Parser Model.ParserSpec
     Proofs.ParserNary Proofs.ParserP Proofs.ParserGood.
From Coq Require Import String.
Local Close Scope string_scope.
Local Open Scope N_scope.

Definition prefix_okb (op : opinfo) : bool :=
  ((o_ty op =? 1) && (20 <? o_prio op)) || ((o_ty op =? 9) && (0 <? o_prio op)).

(* the decision fits the state of the stack: an operand where one is expected, an infix / postfix operator or a right
   fence after an operand, a prefix operator or left fence before one (after an operand: with an implied operator) *)
Definition wf_decb (st : stack) (d : decision) : bool :=
  match st with
  | [] => false
  | top :: _ =>
      match d with
      | DOperand c => negb (f_operand top) && solidb c && deep_okb c
      | DJuxta imo ich iop c =>
          f_operand top && goodb iop && (o_ty iop =? 2) && (20 <? o_prio iop) && deep_okb imo && solidb c && deep_okb c
      | DOp c ch op None =>
          goodb op && deep_okb c &&
          (if f_operand top
           then ((o_ty op =? 2) && (20 <? o_prio op)) || (o_ty op =? 4) || ((o_ty op =? 12) && (o_prio op <=? 20))
           else prefix_okb op)
      | DOp c ch op (Some (imo, ich, iop)) =>
          f_operand top && goodb op && prefix_okb op && deep_okb c &&
          goodb iop && (o_ty iop =? 2) && (20 <? o_prio iop) && deep_okb imo
      | _ => false
      end
  end.

Lemma prefix_okb_spec : forall op, prefix_okb op = true ->
  (o_ty op = 1 /\ 20 < o_prio op) \/ (o_ty op = 9 /\ 0 < o_prio op).
Proof.
  intros op H. unfold prefix_okb in H. apply orb_true_iff in H. destruct H as [H|H]; apply andb_true_iff in H; destruct H as [A B];
    apply N.eqb_eq in A; apply N.ltb_lt in B; auto.
Qed.

Lemma wf_decb_sound : forall st d, wf_decb st d = true -> wf_dec good st d.
Proof.
  intros st d H. unfold wf_decb in H. destruct st as [|top rest]; [discriminate|].
  destruct d as [c|c|imo ich iop c|c ch op [[[imo ich] iop]|]|d]; try discriminate.
  - repeat rewrite andb_true_iff in H. destruct H as [[A B] C]. apply negb_true_iff in A.
    apply WOperand; auto. exists top, rest. auto.
  - repeat rewrite andb_true_iff in H. destruct H as [[[[[[A B] C] D] E] F] G]. apply N.eqb_eq in C. apply N.ltb_lt in D.
    apply WJuxta; auto. exists top, rest. auto.
  - repeat rewrite andb_true_iff in H. destruct H as [[[[[[[A B] C] D] E] F] G] I]. apply N.eqb_eq in F. apply N.ltb_lt in G.
    apply WPrefixAfter; auto; [exists top, rest; auto | apply prefix_okb_spec; exact C].
  - repeat rewrite andb_true_iff in H. destruct H as [[A B] C]. destruct (f_operand top) eqn:Eo.
    + repeat rewrite orb_true_iff in C. destruct C as [[C|C]|C].
      * apply andb_true_iff in C. destruct C as [C1 C2]. apply N.eqb_eq in C1. apply N.ltb_lt in C2.
        apply WInfix; auto. exists top, rest. auto.
      * apply N.eqb_eq in C. apply WPostfix; auto. exists top, rest. auto.
      * apply andb_true_iff in C. destruct C as [C1 C2]. apply N.eqb_eq in C1. apply N.leb_le in C2.
        apply WRight; auto. exists top, rest. auto.
    + apply WPrefix; auto; [exists top, rest; auto | apply prefix_okb_spec; exact C].
Qed.

Definition minv := inv good.
Definition mact_inv := act_inv good good_nary (proj2 (proj2 (proj2 (proj2 good_named)))) good_not_illegal.
Definition mfinish := finish_deep good.
Definition minv_new := inv_new good (proj2 (proj2 (proj2 (proj2 good_named)))).

Definition top_fullb (st : stack) : bool := match st with top :: _ => f_operand top | [] => false end.

(* follows row_loop: every decision fits, and the row ends with an operand *)
Fixpoint placed_loop (cn : ptree -> res ptree) (rc : rowctx) (st : stack) (prev : option ptree) (rest : list ptree) : bool :=
  match rest with
  | [] => top_fullb st
  | c :: rest' =>
      match cn c with
      | Ok c' =>
          match classify rc st prev c' rest' with
          | Ok d => wf_decb st d &&
                    match act st d with
                    | Ok st' => placed_loop cn rc st' (Some c') rest'
                    | _ => true
                    end
          | _ => true
          end
      | _ => true
      end
  end.

Lemma placed_loop_inv : forall cn rc rest st prev st',
  minv st -> placed_loop cn rc st prev rest = true -> row_loop cn rc st prev rest = Ok st' ->
  minv st' /\ top_fullb st' = true.
Proof.
  intros cn rc rest. induction rest as [|c rest' IH]; intros st prev st' Hi Hp H; cbn [row_loop placed_loop] in *.
  - inversion H; subst. auto.
  - apply bind_ok in H. destruct H as [c' [Ec H]]. rewrite Ec in Hp.
    apply bind_ok in H. destruct H as [st1 [Es H]]. unfold step in Es. apply bind_ok in Es. destruct Es as [d [Ed Ea]].
    rewrite Ed in Hp. apply andb_true_iff in Hp. destruct Hp as [Hw Hp]. rewrite Ea in Hp.
    eapply IH; [| exact Hp | exact H]. eapply mact_inv; [exact Hi | apply wf_decb_sound; exact Hw | exact Ea].
Qed.

Theorem parse_row_deep : forall cn rc mrow t,
  placed_loop cn rc [new_frame] None (pkids mrow) = true -> parse_row cn rc mrow = Ok t -> deep_okb t = true.
Proof.
  intros cn rc mrow t Hp H. unfold parse_row in H. apply bind_ok in H. destruct H as [st [R H]].
  destruct (placed_loop_inv cn rc _ _ _ _ minv_new Hp R) as [Hi Hf].
  eapply mfinish; [exact Hi | | exact H]. destruct st as [|top rest]; [discriminate|]. exists top, rest. auto.
Qed.

(* ---------------------------------------------------------------- the whole tree *)
Fixpoint placed (fuel : nat) (parent : str) (idx : nat) (t : ptree) : bool :=
  match fuel with
  | O => true
  | Datatypes.S fuel' =>
      let g := ptag t in
      if str_eqb g s_mi || str_eqb g s_ms || str_eqb g s_mtext || str_eqb g s_mspace || str_eqb g s_mo || str_eqb g s_mn
      then deep_okb (canon_leaf parent (idx =? 0)%nat t)
      else if str_eqb g s_mrow then
        placed_loop (canon fuel' s_mrow 0%nat) (RC parent (negb (idx =? 0)%nat)) [new_frame] None (pkids t)
      else
        negb (str_eqb g s_mrow) &&
        (fix go (i : nat) (l : list ptree) : bool :=
           match l with [] => true | c :: r => placed fuel' g i c && go (Datatypes.S i) r end) 0%nat (pkids t)
  end.

Theorem canon_deep : forall fuel parent idx t t',
  placed fuel parent idx t = true -> canon fuel parent idx t = Ok t' -> deep_okb t' = true.
Proof.
  induction fuel as [|fuel IH]; intros parent idx t t' Hp H; [discriminate|].
  cbn [canon placed] in *.
  destruct (str_eqb (ptag t) s_mi || str_eqb (ptag t) s_ms || str_eqb (ptag t) s_mtext || str_eqb (ptag t) s_mspace ||
            str_eqb (ptag t) s_mo || str_eqb (ptag t) s_mn).
  - inversion H; subst. exact Hp.
  - destruct (str_eqb (ptag t) s_mrow) eqn:Er.
    + eapply parse_row_deep; eauto.
    + apply bind_ok in H. destruct H as [ks [Hk H]]. inversion H; subst t'. clear H.
      cbn [negb andb] in Hp.
      assert (D : deep_list ks = true).
      { revert Hk Hp. generalize 0%nat as i. generalize (pkids t) as l. intro l. revert ks.
        induction l as [|c r IHl]; intros ks i Hk Hp.
        - inversion Hk; subst. reflexivity.
        - apply bind_ok in Hk. destruct Hk as [c' [Hc Hk]]. apply bind_ok in Hk. destruct Hk as [r' [Hr Hk]].
          inversion Hk; subst ks. apply andb_true_iff in Hp. destruct Hp as [P1 P2].
          cbn [deep_list forallb]. rewrite (IH _ _ _ _ P1 Hc). exact (IHl _ _ Hr P2). }
      destruct t as [a g at_ k x]. cbn [set_kids ptag] in *. rewrite deep_okb_unfold. unfold is_built, tag_is. cbn [ptag pkids].
      rewrite Er. cbn [andb]. exact D.
Qed.

Definition well_placed (t : tree) : bool := let p := lift t in wf_input p && placed (psize p) [] 0%nat p.
