(* C08 proofs over Model/Session.v: whatever the history, errors included. *)
From MC Require Import Lib.Base Model.Prefs Model.Nav Gen.KeyTab Model.KeyPress Model.Session Proofs.PrefsP Proofs.NavP Proofs.KeyPressP.
Local Open Scope N_scope.

Section Proofs.
  Variable udp fl : list str.
  Variable cl : str -> str -> bool.
  Variable ff : str -> option str.
  Notation sstep := (Session.step udp fl cl ff).
  Notation srun := (Session.run udp fl cl ff).
  Notation prun := (Prefs.run udp fl cl ff).

  (* a string that is rejected changes nothing: the expression, the navigation position and the preferences stay *)
  Lemma L_rejected_changes_nothing : forall s, sstep s (CSetMathml None) = (s, AErr).
  Proof. reflexivity. Qed.

  (* reading changes nothing *)
  Lemma L_get_changes_nothing : forall s, sstep s CGet = (s, AOk).
  Proof. reflexivity. Qed.

  (* the preference maps after a history are those of its set_preference calls alone *)
  Lemma L_prefs_of_history : forall h s, s_prefs (srun s h) = prun (s_prefs s) (pref_ops h).
  Proof.
    induction h as [|c h IH]; intro s; [reflexivity|]. cbn [Session.run fold_left pref_ops map Prefs.run].
    change (fold_left (fun x c0 => fst (sstep x c0)) h (fst (sstep s c))) with (srun (fst (sstep s c)) h). rewrite IH.
    change (fold_left (fun s0 o => fst (Prefs.step udp fl cl ff s0 o)) (map _ h) ?x) with (prun x (pref_ops h)).
    f_equal. destruct c as [n v|[e|]|cmd outs|k sh ct al me outs|id o lk|]; cbn [Session.step Prefs.step].
    - destruct (set_preference udp fl cl ff (s_prefs s) n v) as [p o]. reflexivity.
    - reflexivity.
    - reflexivity.
    - destruct (s_expr s) as [[ids root]|]; [|reflexivity]. destruct (nav_command ids root cmd outs (s_nav s)). reflexivity.
    - destruct (press k sh ct al me) as [| |cmd]; [reflexivity|reflexivity|].
      destruct (s_expr s) as [[ids root]|]; [|reflexivity]. destruct (nav_command ids root cmd outs (s_nav s)). reflexivity.
    - destruct (s_expr s) as [[ids root]|]; [|reflexivity]. destruct (set_node ids id o lk (s_nav s)). reflexivity.
    - reflexivity.
  Qed.

  (* recovery: after ANY history, a string that is accepted leaves exactly: the preferences of the set_preference calls
     made, the new expression, and a navigation state that remembers nothing but the mode *)
  Theorem L_recovery : forall h s e,
    let s1 := srun s h in
    sstep s1 (CSetMathml (Some e)) =
      (mkses (prun (s_prefs s) (pref_ops h)) (Some e)
             (mkst [] [] (repeat default_pos MAX_PLACE_MARKERS) (mode (s_nav s1)) (overview (s_nav s1))), AOk).
  Proof. intros h s e. cbn zeta. cbn [Session.step]. rewrite L_prefs_of_history. reflexivity. Qed.

  (* no call of the model panics, whatever the history: the preference maps stay well formed, the navigation stack
     cannot be popped empty *)
  Theorem L_session_never_panics : forall h s c, wf (s_prefs s) -> snd (sstep (srun s h) c) <> APanic.
  Proof.
    intros h s c Hwf.
    assert (Hw : wf (s_prefs (srun s h))) by (rewrite L_prefs_of_history; apply L_run_wf; exact Hwf).
    destruct c as [n v|[e|]|cmd outs|k sh ct al me outs|id o lk|]; cbn [Session.step].
    - pose proof (proj1 (L_prefs_total udp fl cl ff _ n v Hw)) as Hp.
      destruct (set_preference udp fl cl ff (s_prefs (srun s h)) n v) as [p o]. cbn [snd] in *. destruct o; cbn; congruence.
    - discriminate.
    - discriminate.
    - destruct (s_expr (srun s h)) as [[ids root]|]; [|discriminate].
      pose proof (L_nav_never_panics ids root cmd outs (s_nav (srun s h))) as Hn.
      destruct (nav_command ids root cmd outs (s_nav (srun s h))) as [n st]. cbn [snd] in *. destruct st; cbn; congruence.
    - pose proof (L_press_never_panics k sh ct al me) as Hk.
      destruct (press k sh ct al me) as [| |cmd]; [discriminate|congruence|].
      destruct (s_expr (srun s h)) as [[ids root]|]; [|discriminate].
      pose proof (L_nav_never_panics ids root cmd outs (s_nav (srun s h))) as Hn.
      destruct (nav_command ids root cmd outs (s_nav (srun s h))) as [n st]. cbn [snd] in *. destruct st; cbn; congruence.
    - destruct (s_expr (srun s h)) as [[ids root]|]; [|discriminate]. unfold set_node.
      destruct (in_ids id ids && lk); discriminate.
    - discriminate.
  Qed.
End Proofs.
